//! The attacker stub: structurally plausible but hostile export packets, and the hostile
//! *families* (template cached first, data decoded under it later) that the survival and
//! cost properties care about.

use crate::rng::Rng;
use crate::wire::{be16, be32, set};

fn v9_hdr(count: u16, rng: &mut Rng) -> Vec<u8> {
    let mut v = vec![0, 9];
    be16(&mut v, count);
    be32(&mut v, rng.next_u64() as u32);
    be32(&mut v, rng.next_u64() as u32);
    be32(&mut v, rng.next_u64() as u32);
    be32(&mut v, rng.next_u64() as u32);
    v
}

fn ipfix_wrap(sets: &[u8], rng: &mut Rng, len_override: Option<u16>) -> Vec<u8> {
    let mut v = vec![0, 10];
    be16(&mut v, len_override.unwrap_or((16 + sets.len()) as u16));
    be32(&mut v, rng.next_u64() as u32);
    be32(&mut v, rng.next_u64() as u32);
    be32(&mut v, rng.next_u64() as u32);
    v.extend_from_slice(sets);
    v
}

fn weird16(rng: &mut Rng) -> u16 {
    match rng.below(8) {
        0 => 0,
        1 => 1,
        2 => 0xffff,
        3 => 0x8000,
        4 => 0x7fff,
        5 => rng.range(0, 8) as u16,
        6 => rng.range(250, 260) as u16,
        _ => rng.next_u64() as u16,
    }
}

fn hostile_len(rng: &mut Rng) -> u16 {
    match rng.below(6) {
        0 => 0,
        1 => 65535,
        2 => rng.range(0, 3) as u16,
        3 => rng.range(1, 16) as u16,
        4 => 65534,
        _ => rng.next_u64() as u16,
    }
}

/// A template id small enough that later packets hit it again.
fn tid(rng: &mut Rng) -> u16 {
    if rng.chance(1, 10) {
        weird16(rng)
    } else {
        256 + rng.below(4) as u16
    }
}

pub fn v9_template_flowset(rng: &mut Rng) -> Vec<u8> {
    let mut body = Vec::new();
    let nt = rng.urange(1, 3);
    for _ in 0..nt {
        be16(&mut body, tid(rng));
        let nf = rng.urange(0, 6);
        let declared = if rng.chance(1, 5) { weird16(rng) } else { nf as u16 };
        be16(&mut body, declared);
        for _ in 0..nf {
            be16(&mut body, if rng.chance(1, 2) { rng.range(1, 100) as u16 } else { weird16(rng) });
            be16(&mut body, hostile_len(rng));
        }
    }
    let pad = rng.urange(0, 5);
    set(0, &body, pad)
}

pub fn v9_options_template_flowset(rng: &mut Rng) -> Vec<u8> {
    let mut body = Vec::new();
    be16(&mut body, tid(rng));
    let ns = rng.urange(0, 3);
    let no = rng.urange(0, 4);
    be16(&mut body, if rng.chance(1, 4) { weird16(rng) } else { (ns * 4) as u16 });
    be16(&mut body, if rng.chance(1, 4) { weird16(rng) } else { (no * 4) as u16 });
    for _ in 0..ns {
        be16(&mut body, rng.range(0, 7) as u16);
        be16(&mut body, hostile_len(rng));
    }
    for _ in 0..no {
        be16(&mut body, rng.range(1, 100) as u16);
        be16(&mut body, hostile_len(rng));
    }
    set(1, &body, rng.urange(0, 3))
}

pub fn ipfix_template_set(rng: &mut Rng, options: bool) -> Vec<u8> {
    let mut body = Vec::new();
    be16(&mut body, tid(rng));
    let nf = rng.urange(0, 6);
    be16(&mut body, if rng.chance(1, 5) { weird16(rng) } else { nf as u16 });
    if options {
        be16(&mut body, if rng.chance(1, 3) { weird16(rng) } else { rng.range(0, nf as u64) as u16 });
    }
    for _ in 0..nf {
        let t = if rng.chance(1, 2) { rng.range(1, 480) as u16 } else { weird16(rng) };
        be16(&mut body, t);
        be16(&mut body, hostile_len(rng));
        if t & 0x8000 != 0 && rng.chance(3, 4) {
            be32(&mut body, rng.next_u64() as u32);
        }
    }
    set(if options { 3 } else { 2 }, &body, rng.urange(0, 3))
}

fn data_set(rng: &mut Rng) -> Vec<u8> {
    let n = match rng.below(5) {
        0 => 0,
        1 => rng.urange(1, 8),
        2 => rng.urange(1, 64),
        3 => rng.urange(64, 600),
        _ => rng.urange(600, 3000),
    };
    let body = match rng.below(4) {
        0 => vec![0u8; n],
        1 => vec![0xffu8; n],
        _ => rng.bytes(n),
    };
    let mut s = set(tid(rng), &body, 0);
    if rng.chance(1, 6) {
        // lie about the length
        let l = hostile_len(rng);
        s[2] = (l >> 8) as u8;
        s[3] = l as u8;
    }
    s
}

pub fn packet(rng: &mut Rng) -> Vec<u8> {
    match rng.below(12) {
        0 => {
            // very short buffers matter: empty, one byte, a bare version field
            let n = if rng.chance(1, 3) { rng.urange(0, 3) } else { rng.urange(0, 64) };
            rng.bytes(n)
        }
        1 => {
            // unknown / odd version numbers
            let mut v = Vec::new();
            be16(&mut v, *rng.pick(&[0u16, 1, 4, 6, 8, 11, 255, 0xffff, 9 << 8, 10 << 8]));
            let n = rng.urange(0, 40);
            v.extend(rng.bytes(n));
            v
        }
        2 | 3 | 4 => {
            // V9: hostile templates and data
            let n = rng.urange(0, 4);
            let mut sets = Vec::new();
            for _ in 0..n {
                let s = match rng.below(4) {
                    0 => v9_template_flowset(rng),
                    1 => v9_options_template_flowset(rng),
                    _ => data_set(rng),
                };
                sets.extend(s);
            }
            let count = if rng.chance(1, 3) { weird16(rng) } else { n as u16 };
            let mut v = v9_hdr(count, rng);
            v.extend(sets);
            v
        }
        5 | 6 | 7 => {
            let n = rng.urange(0, 4);
            let mut sets = Vec::new();
            for _ in 0..n {
                let s = match rng.below(4) {
                    0 => ipfix_template_set(rng, false),
                    1 => ipfix_template_set(rng, true),
                    _ => data_set(rng),
                };
                sets.extend(s);
            }
            let lo = if rng.chance(1, 4) { Some(weird16(rng)) } else { None };
            ipfix_wrap(&sets, rng, lo)
        }
        8 => {
            // V5 / V7 with a lying count
            let ver = if rng.chance(1, 2) { 5 } else { 7 };
            let mut v = vec![0, ver];
            be16(&mut v, weird16(rng));
            let n = rng.urange(0, 200);
            v.extend(rng.bytes(n));
            v
        }
        9 => {
            // set with tiny length inside an otherwise sane message
            let mut sets = Vec::new();
            be16(&mut sets, tid(rng));
            be16(&mut sets, rng.range(0, 3) as u16);
            let n = rng.urange(0, 12);
            sets.extend(rng.bytes(n));
            if rng.chance(1, 2) {
                ipfix_wrap(&sets, rng, None)
            } else {
                let mut v = v9_hdr(rng.range(0, 3) as u16, rng);
                v.extend(sets);
                v
            }
        }
        10 => {
            // many minimal packets glued together
            let n = rng.urange(2, 200);
            let mut v = Vec::new();
            for _ in 0..n {
                match rng.below(3) {
                    0 => v.extend(ipfix_wrap(&[], rng, None)),
                    1 => v.extend(v9_hdr(0, rng)),
                    _ => {
                        v.extend_from_slice(&[0, 5, 0, 0]);
                        v.extend(rng.bytes(20));
                    }
                }
            }
            v
        }
        _ => {
            // header only, count huge
            let mut v = v9_hdr(65535, rng);
            if rng.chance(1, 2) {
                v.extend(data_set(rng));
            }
            v
        }
    }
}

fn v9_tpl_flowset(id: u16, fields: &[(u16, u16)]) -> Vec<u8> {
    let mut b = Vec::new();
    be16(&mut b, id);
    be16(&mut b, fields.len() as u16);
    for (t, l) in fields {
        be16(&mut b, *t);
        be16(&mut b, *l);
    }
    set(0, &b, 0)
}

fn ipfix_tpl_set(id: u16, fields: &[(u16, u16)]) -> Vec<u8> {
    let mut b = Vec::new();
    be16(&mut b, id);
    be16(&mut b, fields.len() as u16);
    for (t, l) in fields {
        be16(&mut b, *t);
        be16(&mut b, *l);
    }
    set(2, &b, 0)
}

fn v9_pkt(rng: &mut Rng, sets: &[Vec<u8>]) -> Vec<u8> {
    let mut v = v9_hdr(sets.len() as u16, rng);
    for s in sets {
        v.extend_from_slice(s);
    }
    v
}

fn ipfix_pkt(rng: &mut Rng, sets: &[Vec<u8>]) -> Vec<u8> {
    let mut all = Vec::new();
    for s in sets {
        all.extend_from_slice(s);
    }
    ipfix_wrap(&all, rng, None)
}

/// Hostile *histories*: the first buffer(s) put something into the caches, the last one is
/// decoded under it. `big` allows sizes up to the datagram limit.
pub fn family(rng: &mut Rng, big: bool) -> (&'static str, Vec<Vec<u8>>) {
    let cap = if big { 65000usize } else { 3000 };
    let id = 256 + rng.below(4) as u16;
    match rng.below(15) {
        14 => {
            // V5 / V7 headers whose count times the record size exceeds 16 bits, over a body as
            // long as the product's low 16 bits: a length guard computed in u16 lets them pass
            let v5 = rng.chance(1, 2);
            let rec: usize = if v5 { 48 } else { 52 };
            let n = rng.urange(1, 4);
            let mut v = Vec::new();
            for _ in 0..n {
                let mut count;
                loop {
                    count = *rng.pick(&[1366usize, 2731, 4096, 8192, 16384, 32768, 1261, 2521, 5042]);
                    if rng.chance(1, 2) {
                        count = rng.urange(65536 / rec + 1, 65535);
                    }
                    if (count * rec) & 0xffff < cap.min(4000) {
                        break;
                    }
                }
                let body = ((count * rec) & 0xffff) + *rng.pick(&[0usize, 0, 1, 47, 52]);
                be16(&mut v, if v5 { 5 } else { 7 });
                be16(&mut v, count as u16);
                v.extend(rng.bytes(20));
                v.extend(rng.bytes(body));
            }
            ("fam_v5_v7_count_times_record_size_wraps_16_bits", vec![v])
        }
        13 => {
            // big templates in the cache, then a buffer packed with small messages of the same
            // protocol: anything that costs "cache size" per message shows as a huge ratio
            let v9 = rng.chance(1, 2);
            let nf = rng.urange(cap / 16, cap / 4 - 8);
            let fields: Vec<(u16, u16)> = (0..nf).map(|_| (1, 4)).collect();
            let n = rng.urange(20, (cap / 24).max(21));
            let mut v = Vec::new();
            if v9 {
                let t = v9_pkt(rng, &[v9_tpl_flowset(id, &fields)]);
                for _ in 0..n {
                    v.extend(v9_hdr(0, rng));
                }
                ("fam_big_cache_then_packed_messages", vec![t, v])
            } else {
                let t = ipfix_pkt(rng, &[ipfix_tpl_set(id, &fields)]);
                for _ in 0..n {
                    v.extend(ipfix_wrap(&[], rng, None));
                }
                ("fam_big_cache_then_packed_messages", vec![t, v])
            }
        }
        12 => {
            // many flowsets, each announcing a field count the bytes do not hold
            let n = rng.urange(2, cap / 8 - 4);
            let v9 = rng.chance(1, 2);
            let mut sets = Vec::new();
            for _ in 0..n {
                let mut b = Vec::new();
                be16(&mut b, id);
                if !v9 && rng.chance(1, 2) {
                    // the other count of an options template record: few fields, huge scope count
                    be16(&mut b, rng.range(0, 2) as u16);
                    be16(&mut b, 65535);
                } else {
                    be16(&mut b, 65535);
                    if !v9 {
                        be16(&mut b, 1);
                    }
                }
                sets.push(set(if v9 { 0 } else { 3 }, &b, 0));
            }
            let p = if v9 { v9_pkt(rng, &sets) } else { ipfix_pkt(rng, &sets) };
            ("fam_many_sets_announcing_huge_counts", vec![p])
        }
        0 => {
            // V9 template whose total size is zero, then data for it
            let nf = rng.urange(1, 4);
            let fields: Vec<(u16, u16)> = (0..nf).map(|_| (rng.range(1, 90) as u16, 0)).collect();
            let t = v9_pkt(rng, &[v9_tpl_flowset(id, &fields)]);
            let n = rng.urange(0, 64);
            let body = rng.bytes(n);
            let d = v9_pkt(rng, &[set(id, &body, 0)]);
            ("fam_v9_zero_size_template", vec![t, d])
        }
        1 => {
            // IPFIX: one-byte records, as many as fit
            let t = ipfix_pkt(rng, &[ipfix_tpl_set(id, &[(4, 1)])]);
            let n = rng.urange(cap / 4, cap);
            let d = ipfix_pkt(rng, &[set(id, &vec![6u8; n], 0)]);
            ("fam_ipfix_many_one_byte_records", vec![t, d])
        }
        2 => {
            let t = v9_pkt(rng, &[v9_tpl_flowset(id, &[(4, 1)])]);
            let n = rng.urange(cap / 4, cap);
            let d = v9_pkt(rng, &[set(id, &vec![6u8; n], 0)]);
            ("fam_v9_many_one_byte_records", vec![t, d])
        }
        3 => {
            // a buffer packed with minimal packets
            let kind = rng.below(3);
            let one: Vec<u8> = match kind {
                0 => ipfix_wrap(&[], rng, None),
                1 => v9_hdr(0, rng),
                _ => {
                    let mut v = vec![0, 5, 0, 0];
                    v.extend(rng.bytes(20));
                    v
                }
            };
            let n = rng.urange(cap / 64, cap / one.len());
            let mut v = Vec::with_capacity(n * one.len());
            for _ in 0..n {
                v.extend_from_slice(&one);
            }
            ("fam_packed_minimal_packets", vec![v])
        }
        4 => {
            // template with very many fields
            let nf = rng.urange(cap / 64, cap / 4 - 8);
            let v9 = rng.chance(1, 2);
            let fields: Vec<(u16, u16)> = (0..nf).map(|_| (1, 1)).collect();
            let n = rng.urange(0, cap / 2);
            if v9 {
                let t = v9_pkt(rng, &[v9_tpl_flowset(id, &fields)]);
                let d = v9_pkt(rng, &[set(id, &vec![1u8; n], 0)]);
                ("fam_template_with_many_fields", vec![t, d])
            } else {
                let t = ipfix_pkt(rng, &[ipfix_tpl_set(id, &fields)]);
                let d = ipfix_pkt(rng, &[set(id, &vec![1u8; n], 0)]);
                ("fam_template_with_many_fields", vec![t, d])
            }
        }
        5 => {
            // zero-length fields x records (output inflation), capped
            let budget = if big { 400_000usize } else { 20_000 };
            let z = rng.urange(1, 200);
            let r = (budget / z).min(cap / 2).max(1);
            let r = rng.urange(1, r);
            let mut fields: Vec<(u16, u16)> = (0..z).map(|_| (82, 0)).collect(); // interfaceName: string
            fields.push((4, 1));
            let v9 = rng.chance(1, 3);
            if v9 {
                let t = v9_pkt(rng, &[v9_tpl_flowset(id, &fields)]);
                let d = v9_pkt(rng, &[set(id, &vec![6u8; r], 0)]);
                ("fam_zero_length_field_inflation", vec![t, d])
            } else {
                let t = ipfix_pkt(rng, &[ipfix_tpl_set(id, &fields)]);
                let d = ipfix_pkt(rng, &[set(id, &vec![6u8; r], 0)]);
                ("fam_zero_length_field_inflation", vec![t, d])
            }
        }
        6 => {
            // counts and lengths announcing what is not there
            let tail = rng.urange(0, 64);
            let v = match rng.below(6) {
                0 => {
                    let mut v = v9_hdr(65535, rng);
                    v.extend(rng.bytes(tail));
                    v
                }
                1 => {
                    let mut b = Vec::new();
                    be16(&mut b, id);
                    be16(&mut b, 65535);
                    b.extend(rng.bytes(tail / 4 * 4));
                    v9_pkt(rng, &[set(0, &b, 0)])
                }
                2 => {
                    let mut b = Vec::new();
                    be16(&mut b, id);
                    be16(&mut b, 65535);
                    be16(&mut b, 65535);
                    b.extend(rng.bytes(tail));
                    v9_pkt(rng, &[set(1, &b, 0)])
                }
                3 => {
                    let mut b = Vec::new();
                    be16(&mut b, id);
                    be16(&mut b, 65535);
                    be16(&mut b, rng.next_u64() as u16);
                    b.extend(rng.bytes(tail));
                    ipfix_pkt(rng, &[set(3, &b, 0)])
                }
                4 => {
                    let mut v = vec![0, if rng.chance(1, 2) { 5 } else { 7 }, 0xff, 0xff];
                    v.extend(rng.bytes(20 + tail));
                    v
                }
                _ => {
                    let mut b = Vec::new();
                    be16(&mut b, id);
                    be16(&mut b, 65535);
                    b.extend(rng.bytes(tail));
                    ipfix_pkt(rng, &[set(2, &b, 0)])
                }
            };
            ("fam_counts_beyond_the_bytes_present", vec![v])
        }
        7 => {
            // V9: a record that cannot be decoded, many iterations
            let fields = vec![(1u16, 5u16), (2, 1)];
            let t = v9_pkt(rng, &[v9_tpl_flowset(id, &fields)]);
            let n = rng.urange(cap / 4, cap);
            let d = v9_pkt(rng, &[set(id, &vec![1u8; n], 0)]);
            ("fam_v9_undecodable_record_many_times", vec![t, d])
        }
        8 => {
            // many sets of one record each
            let v9 = rng.chance(1, 2);
            let n = rng.urange(cap / 64, cap / 8 - 4);
            let sets: Vec<Vec<u8>> = (0..n).map(|_| set(id, &[1, 2, 3, 4], 0)).collect();
            if v9 {
                let t = v9_pkt(rng, &[v9_tpl_flowset(id, &[(1, 4)])]);
                ("fam_many_single_record_sets", vec![t, v9_pkt(rng, &sets)])
            } else {
                let t = ipfix_pkt(rng, &[ipfix_tpl_set(id, &[(1, 4)])]);
                ("fam_many_single_record_sets", vec![t, ipfix_pkt(rng, &sets)])
            }
        }
        9 => {
            // variable-length records of minimal size
            let t = ipfix_pkt(rng, &[ipfix_tpl_set(id, &[(82, 65535)])]);
            let n = rng.urange(cap / 4, cap);
            let d = ipfix_pkt(rng, &[set(id, &vec![0u8; n], 0)]);
            ("fam_ipfix_many_empty_varlen_records", vec![t, d])
        }
        10 => {
            // many templates in one flowset / many template packets
            let n = rng.urange(cap / 64, cap / 8 - 4);
            let mut b = Vec::new();
            for i in 0..n {
                be16(&mut b, 256 + (i % 2000) as u16);
                be16(&mut b, 1);
                be16(&mut b, 1);
                be16(&mut b, 4);
            }
            ("fam_many_templates_in_one_flowset", vec![v9_pkt(rng, &[set(0, &b, 0)])])
        }
        _ => {
            // options template with zero-length fields, then options data
            let mut b = Vec::new();
            be16(&mut b, id);
            be16(&mut b, 4);
            be16(&mut b, 4);
            be16(&mut b, 1);
            be16(&mut b, if rng.chance(1, 2) { 0 } else { 4 });
            be16(&mut b, 10);
            be16(&mut b, if rng.chance(1, 2) { 0 } else { 2 });
            let t = v9_pkt(rng, &[set(1, &b, 2)]);
            let n = rng.urange(0, 200);
            let body = rng.bytes(n);
            let d = v9_pkt(rng, &[set(id, &body, 0)]);
            ("fam_v9_options_zero_length", vec![t, d])
        }
    }
}

/// Scaling families: the same hostile/legit shape at a given size `n`, so that a super-linear
/// cost law shows as a growing ratio between sizes n, 2n, 4n.
pub const SCALED: &[&str] = &[
    "scale_packed_ipfix_messages",
    "scale_packed_v5_headers",
    "scale_v9_one_byte_records",
    "scale_ipfix_one_byte_records",
    "scale_ipfix_empty_varlen_records",
    "scale_v9_single_record_sets",
    "scale_ipfix_single_record_sets",
    "scale_v9_templates_in_one_flowset",
    "scale_ipfix_template_sets",
    "scale_v9_options_data_sets",
    "scale_packed_v9_unknown_template_packets",
    "scale_packed_v9_empty_packets",
    "scale_packed_ipfix_unknown_set_messages",
];

pub fn scaled(rng: &mut Rng, which: &str, n: usize) -> Vec<Vec<u8>> {
    let id = 300u16;
    match which {
        "scale_packed_ipfix_messages" => {
            let mut v = Vec::new();
            for _ in 0..n {
                v.extend(ipfix_wrap(&[], rng, None));
            }
            vec![v]
        }
        "scale_packed_v5_headers" => {
            let mut v = Vec::new();
            for _ in 0..n {
                v.extend_from_slice(&[0, 5, 0, 0]);
                v.extend(rng.bytes(20));
            }
            vec![v]
        }
        "scale_packed_v9_unknown_template_packets" => {
            // each packet carries data for a template nobody sent (lost template, restart):
            // the first one ends the call with one error; anything that keeps going behind it
            // and reports the rest again per packet is quadratic
            let mut v = Vec::new();
            for _ in 0..n {
                v.extend(v9_pkt(rng, &[set(64999, &[1, 2, 3, 4], 0)]));
            }
            vec![v]
        }
        "scale_packed_v9_empty_packets" => {
            let mut v = Vec::new();
            for _ in 0..n {
                v.extend(v9_pkt(rng, &[]));
            }
            vec![v]
        }
        "scale_packed_ipfix_unknown_set_messages" => {
            let mut v = Vec::new();
            for _ in 0..n {
                v.extend(ipfix_pkt(rng, &[set(64999, &[1, 2, 3, 4], 0)]));
            }
            vec![v]
        }
        "scale_v9_one_byte_records" => {
            vec![v9_pkt(rng, &[v9_tpl_flowset(id, &[(5, 1)])]), v9_pkt(rng, &[set(id, &vec![7u8; n], 0)])]
        }
        "scale_ipfix_one_byte_records" => {
            vec![ipfix_pkt(rng, &[ipfix_tpl_set(id, &[(5, 1)])]), ipfix_pkt(rng, &[set(id, &vec![7u8; n], 0)])]
        }
        "scale_ipfix_empty_varlen_records" => {
            vec![ipfix_pkt(rng, &[ipfix_tpl_set(id, &[(82, 65535)])]), ipfix_pkt(rng, &[set(id, &vec![0u8; n], 0)])]
        }
        "scale_v9_single_record_sets" => {
            let sets: Vec<Vec<u8>> = (0..n).map(|_| set(id, &[1, 2, 3, 4], 0)).collect();
            vec![v9_pkt(rng, &[v9_tpl_flowset(id, &[(1, 4)])]), v9_pkt(rng, &sets)]
        }
        "scale_ipfix_single_record_sets" => {
            let sets: Vec<Vec<u8>> = (0..n).map(|_| set(id, &[1, 2, 3, 4], 0)).collect();
            vec![ipfix_pkt(rng, &[ipfix_tpl_set(id, &[(1, 4)])]), ipfix_pkt(rng, &sets)]
        }
        "scale_v9_templates_in_one_flowset" => {
            let mut b = Vec::new();
            for i in 0..n {
                be16(&mut b, 256 + (i % 4000) as u16);
                be16(&mut b, 1);
                be16(&mut b, 1);
                be16(&mut b, 4);
            }
            vec![v9_pkt(rng, &[set(0, &b, 0)])]
        }
        "scale_ipfix_template_sets" => {
            let sets: Vec<Vec<u8>> = (0..n).map(|i| ipfix_tpl_set(256 + (i % 4000) as u16, &[(1, 4)])).collect();
            vec![ipfix_pkt(rng, &sets)]
        }
        _ => {
            // V9 options template + n options-data flowsets of one record
            let mut b = Vec::new();
            be16(&mut b, id);
            be16(&mut b, 4);
            be16(&mut b, 4);
            be16(&mut b, 1);
            be16(&mut b, 4);
            be16(&mut b, 10);
            be16(&mut b, 4);
            let t = v9_pkt(rng, &[set(1, &b, 2)]);
            let sets: Vec<Vec<u8>> = (0..n).map(|_| set(id, &[1, 2, 3, 4, 5, 6, 7, 8], 0)).collect();
            vec![t, v9_pkt(rng, &sets)]
        }
    }
}

/// size of one unit of a scaled family on the wire (to keep 4n units inside a datagram)
pub fn unit(which: &str) -> usize {
    match which {
        "scale_packed_ipfix_messages" => 16,
        "scale_packed_v5_headers" => 24,
        "scale_packed_v9_unknown_template_packets" => 28,
        "scale_packed_v9_empty_packets" => 20,
        "scale_packed_ipfix_unknown_set_messages" => 24,
        "scale_v9_one_byte_records" | "scale_ipfix_one_byte_records" | "scale_ipfix_empty_varlen_records" => 1,
        "scale_v9_options_data_sets" => 12,
        _ => 8,
    }
}
