//! Oracles, one group per property. Every oracle is a function of the delivered trace and of
//! what the real parsers returned; none looks at the exporter stubs' intent.

use crate::exec::*;
use crate::flat::*;
use crate::model::*;
use crate::trace::Trace;
use netflow_parser::{NetflowPacket, NetflowParseError, NetflowParser};

pub mod c13;
pub mod c15;
pub mod c16;
pub mod export;

fn is_err(p: &NetflowPacket) -> bool {
    matches!(p, NetflowPacket::Error(_))
}

fn outcome_class(r: &[NetflowPacket]) -> u64 {
    if r.is_empty() {
        2
    } else if r.iter().any(is_err) {
        1
    } else {
        0
    }
}

/// Calls the primary parser of this delivery. A panic is a C01 matter: under C01 it is a
/// finding, under any other property the run is abandoned and counted.
pub fn primary(sim: &mut Sim, prop: &str, d: &Delivery) -> Option<Vec<NetflowPacket>> {
    match call(&mut sim.parsers[d.p], d.buf) {
        Called::Ok(r) => {
            sim.fed[d.p].push(d.buf.to_vec());
            sim.stats.packets_returned += r.iter().filter(|x| !is_err(x)).count() as u64;
            sim.stats.errors_returned += r.iter().filter(|x| is_err(x)).count() as u64;
            let mut dg = crate::rng::Digest::default();
            for el in &r {
                dg.str(&dbg(el));
            }
            sim.last_outcome = dg.finish().to_le_bytes().to_vec();
            Some(r)
        }
        Called::Panic(msg) => {
            sim.stats.panics += 1;
            sim.last_outcome = b"panic".to_vec();
            if prop == "C01" {
                sim.find("C01-panic-parse", d.ev, format!("parse_bytes panicked: {}", msg));
            } else {
                sim.find("ABANDON-panic", d.ev, format!("parse_bytes panicked (C01's business): {}", msg));
            }
            None
        }
    }
}

/// Runs the model over this delivery and keeps the model cache in step.
pub fn model_step(sim: &mut Sim, d: &Delivery, post: &CacheSnap) -> Walk {
    let allowed = sim.cfgs[d.p].allowed.clone();
    let pre_taint = sim.models[d.p].tainted.clone();
    let w = walk(d.buf, &mut sim.models[d.p], &allowed, &sim.mcfg);
    for pk in &w.pkts {
        let (proto, sets) = match &pk.body {
            MBody::V9 { sets, .. } => (Proto::V9, sets),
            MBody::Ipfix { sets, .. } => (Proto::Ipfix, sets),
            _ => continue,
        };
        for s in sets {
            if let MSetKind::Tpls { tpls, .. } = &s.kind {
                for (id, def) in tpls {
                    let h = sim.history.entry((d.p, proto, *id)).or_default();
                    if h.last() != Some(def) {
                        h.push(def.clone());
                    }
                }
                // listed structural defect: an IPFIX set with several template records
                if proto == Proto::Ipfix && tpls.len() > 1 {
                    sim.stats.probe("ipfix_multi_template_set");
                }
            }
        }
    }
    if std::env::var("NFSIM_DEBUG").is_ok() {
        eprintln!("ev {} stop {:?} pkts {} tainted {:?} model ids {:?}", d.ev, w.stop, w.pkts.len(), sim.models[d.p].tainted, sim.models[d.p].ipfix.keys().collect::<Vec<_>>());
    }
    if w.fully_known() {
        sim.stats.conformant_deliveries += 1;
    } else {
        resync(&mut sim.models[d.p], post);
        // the walk may have lifted a taint on the strength of a template record the library
        // never got to (it stops at the first undecodable set): never untaint on such deliveries
        for t in pre_taint {
            if sim.models[d.p].map(t.0).contains_key(&t.1) {
                sim.models[d.p].tainted.insert(t);
            }
        }
    }
    w
}

/// Property-literal cache clause that holds for *any* input: entries never disappear, and an
/// entry that is new or changed is spelled out, byte for byte, in this very buffer (which
/// must start with an allowed version).
pub fn cache_weak(sim: &mut Sim, code_prefix: &str, d: &Delivery, pre: &CacheSnap, post: &CacheSnap) {
    for (k, v) in pre {
        match post.get(k) {
            None => {
                // displaced by a definition of the other kind for the same id is fine
                let sib = (k.0, !k.1, k.2);
                if post.get(&sib).is_some() && pre.get(&sib) != post.get(&sib) {
                    continue;
                }
                sim.find(
                    &format!("{}-cache-entry-lost", code_prefix),
                    d.ev,
                    format!("template {:?} was in the cache before this delivery and is gone after it", k),
                );
                return;
            }
            Some(nv) if nv != v => {
                if !spelled_out(d.buf, k.2, nv) {
                    sim.find(
                        &format!("{}-cache-entry-changed", code_prefix),
                        d.ev,
                        format!("template {:?} changed to a definition that is not in the delivered bytes: {:?}", k, nv),
                    );
                    return;
                }
            }
            _ => {}
        }
    }
    // an entry that is new or changed must be a COMPLETE record: all announced field
    // specifiers were present in the input
    for (k, v) in post {
        if pre.get(k) == Some(v) {
            continue;
        }
        let (announced, present) = match v {
            TDef::Tpl { field_count, fields } => (usize::from(*field_count), fields.len()),
            TDef::IpOpt { field_count, fields, .. } => (usize::from(*field_count), fields.len()),
            TDef::V9Opt { scope_len, opt_len, scope, opts } => (usize::from(*scope_len / 4) + usize::from(*opt_len / 4), scope.len() + opts.len()),
        };
        if present < announced {
            sim.find(
                &format!("{}-incomplete-template-record-cached", code_prefix),
                d.ev,
                format!("template {:?} was cached from a record that announces {} field specifiers but only {} were in the input", k, announced, present),
            );
            return;
        }
    }
    let allowed_first =
        d.buf.len() >= 2 && sim.cfgs[d.p].allowed.contains(&(u16::from(d.buf[0]) << 8 | u16::from(d.buf[1])));
    for (k, v) in post {
        if !pre.contains_key(k) {
            if !allowed_first {
                sim.find(
                    &format!("{}-cache-learned-from-disallowed", code_prefix),
                    d.ev,
                    format!("template {:?} learned from a buffer whose first packet has a disallowed version", k),
                );
                return;
            }
            if !spelled_out(d.buf, k.2, v) {
                sim.find(
                    &format!("{}-cache-entry-invented", code_prefix),
                    d.ev,
                    format!("template {:?} appeared in the cache but its definition is not in the delivered bytes: {:?}", k, v),
                );
                return;
            }
        }
    }
}

/// A template record that was received complete, in a packet of an allowed version, is the
/// definition later data sets must be decoded with (C06) - also when a *later* set of the same
/// packet could not be decoded (C07: the undecodable set must leave the caches as they were,
/// which includes what the packet had taught the parser up to that point).
pub fn templates_around_unknown_kept(sim: &mut Sim, code_prefix: &str, d: &Delivery, w: &Walk, r: &[NetflowPacket], pre: &CacheSnap, post: &CacheSnap) {
    if !w.conformant() {
        return;
    }
    for pk in &w.pkts {
        if !pk.has_unknown {
            continue;
        }
        let (proto, sets) = match &pk.body {
            MBody::V9 { sets, .. } => (Proto::V9, sets),
            MBody::Ipfix { sets, .. } => (Proto::Ipfix, sets),
            _ => continue,
        };
        if sets.iter().any(|s| s.tainted) {
            continue;
        }
        if proto == Proto::V9 {
            // only where the library did stop at this packet (whether it must is C07's clause):
            // otherwise later packets of the buffer may legitimately have redefined the id
            let stopped_here = matches!(r.last(), Some(NetflowPacket::Error(e)) if e.remaining.len() == d.buf.len() - pk.start);
            if !stopped_here {
                continue;
            }
        }
        // latest definition per id among the template records of this packet (V9: those in
        // front of the undecodable flowset, the only ones the walk reaches)
        let mut latest: std::collections::BTreeMap<u16, &TDef> = std::collections::BTreeMap::new();
        for s in sets {
            if let MSetKind::Tpls { tpls, .. } = &s.kind {
                if proto == Proto::Ipfix && tpls.len() > 1 {
                    latest.clear();
                    break;
                }
                for (id, def) in tpls {
                    latest.insert(*id, def);
                }
            }
        }
        // a later packet of the same buffer may have redefined the id again
        let last_pkt = std::ptr::eq(pk, w.pkts.last().unwrap());
        if !last_pkt {
            continue;
        }
        for (id, def) in latest {
            let key = (proto, def.is_options(), id);
            // the violation this clause is after: the definition the packet carried is gone
            // again (rolled back / cleared), i.e. the cache says what it said before the call.
            // A different *new* definition may stem from a later set the library went on to
            // process; that is not this clause's business.
            let sib = (proto, !def.is_options(), id);
            // (or it is gone altogether: a roll-back that removes instead of restoring)
            if post.get(&key) != Some(def) && (post.get(&key) == pre.get(&key) || post.get(&key).is_none()) && post.get(&sib) == pre.get(&sib) {
                sim.find(
                    &format!("{}-template-of-failing-packet-not-kept", code_prefix),
                    d.ev,
                    format!(
                        "the {:?} packet at offset {} carries a complete template record for id {} and a data set for an unknown template; after the call the cache does not hold that definition (it holds {:?})",
                        proto,
                        pk.start,
                        id,
                        post.get(&key).or(post.get(&(proto, !def.is_options(), id)))
                    ),
                );
                return;
            }
        }
    }
}

fn spelled_out(buf: &[u8], id: u16, def: &TDef) -> bool {
    let w = crate::wire::template_record(id, def);
    if w.len() > buf.len() {
        return false;
    }
    buf.windows(w.len()).any(|x| x == &w[..])
}

// ------------------------------------------------------------------------------------------
// C01
// ------------------------------------------------------------------------------------------

fn smoke(sim: &mut Sim, d: &Delivery, r: &[NetflowPacket]) {
    use std::panic::{catch_unwind, AssertUnwindSafe};
    for el in r {
        let res = catch_unwind(AssertUnwindSafe(|| {
            match el {
                NetflowPacket::V5(x) => {
                    let _ = x.to_be_bytes();
                }
                NetflowPacket::V7(x) => {
                    let _ = x.to_be_bytes();
                }
                NetflowPacket::V9(x) => {
                    let _ = x.to_be_bytes();
                }
                NetflowPacket::IPFix(x) => {
                    let _ = x.to_be_bytes();
                }
                NetflowPacket::Error(_) => {}
                #[allow(unreachable_patterns)]
                _ => {}
            }
            1u8
        }));
        if res.is_err() {
            sim.find("C01-panic-export", d.ev, "to_be_bytes panicked on a returned value".into());
            return;
        }
        let res = catch_unwind(AssertUnwindSafe(|| {
            let _ = el.as_netflow_common();
        }));
        if res.is_err() {
            sim.find("C01-panic-common", d.ev, "as_netflow_common panicked on a returned value".into());
            return;
        }
        let res = catch_unwind(AssertUnwindSafe(|| {
            let mut sink = std::io::sink();
            let _ = serde_json::to_writer(&mut sink, el);
        }));
        if res.is_err() {
            sim.find("C01-panic-json", d.ev, "JSON serialization panicked on a returned value".into());
            return;
        }
    }
}

fn c01(sim: &mut Sim, d: &Delivery) -> u64 {
    let Some(r) = primary(sim, "C01", d) else { return 3 };
    sim.stats.oracle_evals += 1;
    smoke(sim, d, &r);
    // the common-flow entry point too (on a fork: it must not disturb the history)
    let mut f = fork(&sim.parsers[d.p]);
    let res = std::panic::catch_unwind(std::panic::AssertUnwindSafe(|| {
        let _ = f.parse_bytes_as_netflow_common_flowsets(d.buf);
    }));
    if res.is_err() {
        sim.find("C01-panic-common-flowsets", d.ev, "parse_bytes_as_netflow_common_flowsets panicked".into());
    }
    if d.buf.len() > 4096 {
        sim.stats.probe("buffer_over_4k");
    }
    if r.iter().any(|x| !is_err(x)) && d.faults.iter().any(|f| f == "corrupt" || f == "hostile") {
        sim.stats.probe("hostile_input_accepted_as_packet");
        sim.stats.nontrivial = true;
    }
    outcome_class(&r)
}

// ------------------------------------------------------------------------------------------
// C02
// ------------------------------------------------------------------------------------------

pub fn c02_relation(buf: &[u8], allowed: &[u16], r: &[NetflowPacket]) -> Result<(), (String, String)> {
    if buf.is_empty() {
        if r.is_empty() {
            return Ok(());
        }
        return Err(("C02-empty-buffer-nonempty-result".into(), format!("{} elements for an empty buffer", r.len())));
    }
    let mut pos = 0usize;
    for (i, el) in r.iter().enumerate() {
        match el {
            NetflowPacket::Error(e) => {
                if i + 1 != r.len() {
                    return Err(("C02-error-not-last".into(), format!("element {} of {} is an error", i, r.len())));
                }
                if e.remaining != buf[pos..] {
                    return Err((
                        "C02-remaining-mismatch".into(),
                        format!(
                            "error.remaining has {} bytes, unconsumed suffix (from offset {}) has {} bytes{}",
                            e.remaining.len(),
                            pos,
                            buf.len() - pos,
                            if e.remaining.len() == buf.len() - pos { " (same length, different content)" } else { "" }
                        ),
                    ));
                }
                return Ok(());
            }
            p => {
                let len = wire_len(p).unwrap();
                if pos + len > buf.len() {
                    return Err((
                        "C02-packet-overruns-buffer".into(),
                        format!("element {} claims {} bytes at offset {} of a {}-byte buffer", i, len, pos, buf.len()),
                    ));
                }
                let v = version_of(p).unwrap();
                if buf.len() - pos < 2 || (u16::from(buf[pos]) << 8 | u16::from(buf[pos + 1])) != v {
                    return Err((
                        "C02-version-mismatch".into(),
                        format!("element {} is version {} but offset {} does not hold that version", i, v, pos),
                    ));
                }
                // count fields must agree with what is materialised
                let ok = match p {
                    NetflowPacket::V5(x) => x.flowsets.len() == usize::from(x.header.count),
                    NetflowPacket::V7(x) => x.flowsets.len() == usize::from(x.header.count),
                    _ => true,
                };
                if !ok {
                    return Err(("C02-count-mismatch".into(), format!("element {}: header.count differs from records returned", i)));
                }
                pos += len;
            }
        }
    }
    if pos < buf.len() {
        if buf.len() - pos < 2 {
            return Err((
                "C02-silent-stop".into(),
                format!("result ends at offset {} of {} without an error (1 byte left)", pos, buf.len()),
            ));
        }
        let v = u16::from(buf[pos]) << 8 | u16::from(buf[pos + 1]);
        if allowed.contains(&v) {
            return Err((
                "C02-silent-stop".into(),
                format!("result ends at offset {} of {} without an error although version {} is allowed", pos, buf.len(), v),
            ));
        }
    }
    Ok(())
}

fn c02(sim: &mut Sim, d: &Delivery) -> u64 {
    let Some(r) = primary(sim, "C02", d) else { return 3 };
    sim.stats.oracle_evals += 1;
    let allowed = sim.cfgs[d.p].allowed.clone();
    if let Err((code, msg)) = c02_relation(d.buf, &allowed, &r) {
        sim.find(&code, d.ev, msg);
    }
    if d.buf.is_empty() {
        sim.stats.probe("empty_buffer_delivered");
    }
    for el in &r {
        match el {
            NetflowPacket::V9(x) => {
                if x.flowsets.iter().any(|f| f.header.length < 4) {
                    sim.stats.probe("v9_flowset_length_below_4_accepted");
                }
                if usize::from(x.header.count) > x.flowsets.len() {
                    sim.stats.probe("v9_count_exceeds_flowsets");
                }
            }
            NetflowPacket::IPFix(x) if x.header.length < 16 => sim.stats.probe("ipfix_length_below_16_accepted"),
            _ => {}
        }
    }
    if d.buf.len() == 1 {
        sim.stats.probe("one_byte_buffer_delivered");
    }
    if r.len() >= 2 {
        sim.stats.probe("multi_element_result");
        sim.stats.nontrivial = true;
    }
    if r.last().map(is_err).unwrap_or(false) {
        sim.stats.probe("ends_with_error");
        if r.len() >= 2 {
            sim.stats.probe("packets_then_error");
        }
    }
    if !r.is_empty() && !r.last().map(is_err).unwrap() {
        let consumed: usize = r.iter().filter_map(wire_len).sum();
        if consumed < d.buf.len() {
            sim.stats.probe("stopped_at_disallowed_version");
        }
    }
    if r.is_empty() && !d.buf.is_empty() {
        sim.stats.probe("empty_result_disallowed_first");
    }
    outcome_class(&r)
}

/// Oracles that locate packets in the buffer through the result's own decomposition (C02) do
/// not judge a result that is not a decomposition: that is C02's finding, not theirs.
pub fn decomposes(sim: &mut Sim, d: &Delivery, r: &[NetflowPacket]) -> bool {
    let allowed = sim.cfgs[d.p].allowed.clone();
    if c02_relation(d.buf, &allowed, r).is_err() {
        sim.stats.probe("not_judged_result_is_not_a_decomposition");
        return false;
    }
    true
}

// ------------------------------------------------------------------------------------------
// C04 / C05 (and the decode part of C06, C07, C17)
// ------------------------------------------------------------------------------------------

pub struct DecodeReport {
    pub sets_checked: u64,
    pub records_checked: u64,
}

/// Compares what the library returned for a conformant delivery with the model's decode.
/// `version` selects the protocol under judgement (9 or 10); `only_data` restricts the
/// judgement to data sets (used by C06/C07).
pub fn compare_decode(
    sim: &mut Sim,
    prefix: &str,
    version: u16,
    d: &Delivery,
    w: &Walk,
    r: &[NetflowPacket],
) -> DecodeReport {
    let mut rep = DecodeReport { sets_checked: 0, records_checked: 0 };
    if !w.conformant() || !decomposes(sim, d, r) {
        return rep;
    }
    let Some(offs) = offsets(d.buf, r) else { return rep };
    for pk in &w.pkts {
        if pk.version != version {
            continue;
        }
        if pk.version == 9 && pk.has_unknown {
            continue;
        }
        let Some(i) = (0..r.len()).find(|i| offs[*i] == pk.start && !is_err(&r[*i])) else {
            sim.find(
                &format!("{}-packet-not-reported", prefix),
                d.ev,
                format!("conformant v{} packet at offset {} ({} bytes) is not among the returned packets", pk.version, pk.start, pk.len),
            );
            return rep;
        };
        let fp = match &r[i] {
            NetflowPacket::V9(x) => flat_v9(x),
            NetflowPacket::IPFix(x) => flat_ipfix(x),
            other => {
                sim.find(
                    &format!("{}-wrong-kind", prefix),
                    d.ev,
                    format!("packet at offset {} returned as {:?}", pk.start, version_of(other)),
                );
                return rep;
            }
        };
        if fp.hdr != expect_hdr(pk) {
            sim.find(
                &format!("{}-header-mismatch", prefix),
                d.ev,
                format!("header at offset {}: expected {:?}, library reports {:?}", pk.start, expect_hdr(pk), fp.hdr),
            );
            return rep;
        }
        let exp = expect_sets(d.buf, pk);
        let sets_model = match &pk.body {
            MBody::V9 { sets, .. } | MBody::Ipfix { sets, .. } => sets,
            _ => unreachable!(),
        };
        // Align the returned sets with the model's: a set with an unknown template must be
        // absent (C07), a set whose real-side template is unreliable because of a listed finding
        // (tainted) may be absent or present and is not judged, every other set must be there.
        let mut gi = 0usize;
        for k in 0..exp.len() {
            let e = &exp[k];
            let unknown = matches!(sets_model[k].kind, MSetKind::UnknownTpl { .. });
            let next_matches = fp.sets.get(gi).map(|(id, len, _)| *id == e.id && *len == e.len).unwrap_or(false);
            if unknown {
                // whether it is (wrongly) present is C07's judgement; here it is simply not expected
                continue;
            }
            if sets_model[k].tainted {
                sim.stats.probe("skipped_tainted_set");
                if next_matches {
                    gi += 1;
                }
                continue;
            }
            if !UNKNOWN_FIELDS_ON && e.correct.is_none() && e.defective.is_empty() {
                // built without parse_unknown_fields, the governing template holds a field the
                // library does not know: IPFIX omits the set, V9 reports it without records;
                // what must not happen is judged by C17's rule (b)
                sim.stats.probe("set_without_expectation");
                if next_matches {
                    gi += 1;
                }
                continue;
            }
            if !next_matches {
                sim.find(
                    &format!("{}-sets-missing", prefix),
                    d.ev,
                    format!(
                        "packet at offset {}: set {} (id {}, {} bytes) is decodable with the templates this parser holds but is not among the returned sets (returned set {} is {:?})",
                        pk.start,
                        k,
                        e.id,
                        e.len,
                        gi,
                        fp.sets.get(gi).map(|x| (x.0, x.1))
                    ),
                );
                return rep;
            }
            let (id, _len, ref got) = fp.sets[gi];
            gi += 1;
            rep.sets_checked += 1;
            if let MSetKind::Data { recs, .. } = &sets_model[k].kind {
                rep.records_checked += recs.len() as u64;
            }
            if Some(got) == e.correct.as_ref() {
                continue;
            }
            if let Some((code, _)) = e.defective.iter().find(|(_, f)| f == got) {
                let code = code.clone();
                sim.find(&code, d.ev, format!("set {} (id {}) of packet at offset {} decoded in the listed defective form", k, id, pk.start));
                continue;
            }
            if e.correct.is_none() && e.defective.is_empty() {
                // nothing the model can demand here (e.g. unknown field with the feature off)
                sim.stats.probe("set_without_expectation");
                continue;
            }
            let exp_s = format!("{:?}", e.correct.as_ref().or(e.defective.first().map(|x| &x.1)).unwrap());
            let got_s = format!("{:?}", got);
            let (exp_s, got_s) = around_first_diff(&exp_s, &got_s);
            sim.find(
                &format!("{}-set-decode-mismatch", prefix),
                d.ev,
                format!(
                    "set {} (id {}) of packet at offset {}: decoded content differs from the template-governed interpretation of the bytes.\n expected {}\n observed {}",
                    k,
                    id,
                    pk.start,
                    trunc(&exp_s, 1500),
                    trunc(&got_s, 1500)
                ),
            );
            return rep;
        }
        if gi != fp.sets.len() && !pk.has_unknown && !sets_model.iter().any(|s| s.tainted) {
            sim.find(
                &format!("{}-extra-sets", prefix),
                d.ev,
                format!("packet at offset {}: {} sets returned, the bytes hold {} sets", pk.start, fp.sets.len(), exp.len()),
            );
            return rep;
        }
    }
    rep
}

/// Windows of both strings around their first difference.
pub fn around_first_diff(a: &str, b: &str) -> (String, String) {
    let ab = a.as_bytes();
    let bb = b.as_bytes();
    let mut i = 0;
    while i < ab.len() && i < bb.len() && ab[i] == bb[i] {
        i += 1;
    }
    let win = |s: &str| {
        let mut st = i.saturating_sub(300);
        while !s.is_char_boundary(st) {
            st -= 1;
        }
        let mut en = (i + 300).min(s.len());
        while !s.is_char_boundary(en) {
            en -= 1;
        }
        format!("[{} chars total, showing {}..{}] {}", s.len(), st, en, &s[st..en])
    };
    (win(a), win(b))
}

pub fn trunc(s: &str, n: usize) -> String {
    if s.len() <= n {
        s.to_string()
    } else {
        let mut e = n;
        while !s.is_char_boundary(e) {
            e -= 1;
        }
        format!("{}…", &s[..e])
    }
}

fn c04_c05(sim: &mut Sim, prop: &str, d: &Delivery) -> u64 {
    let pre = snap(&sim.parsers[d.p]);
    let Some(r) = primary(sim, prop, d) else { return 3 };
    let post = snap(&sim.parsers[d.p]);
    let w = model_step(sim, d, &post);
    let version = if prop == "C04" { 9 } else { 10 };
    // the governing template of an id is the latest one the stream announced: a cached
    // definition may be displaced by a later one (of either kind), never just disappear -
    // after a packet that failed as a whole the model re-reads the real caches, so a
    // definition lost there would go unnoticed by the decode comparison below
    let proto = if version == 9 { Proto::V9 } else { Proto::Ipfix };
    for k in pre.keys().filter(|k| k.0 == proto) {
        let sib = (k.0, !k.1, k.2);
        if !post.contains_key(k) && !(post.get(&sib).is_some() && pre.get(&sib) != post.get(&sib)) {
            sim.find(
                &format!("{}-governing-template-lost", prop),
                d.ev,
                format!("template {:?} was announced and cached before this delivery and is gone after it: later data for it cannot be decoded with the definition that was sent", k),
            );
            break;
        }
    }
    let rep = compare_decode(sim, prop, version, d, &w, &r);
    sim.stats.oracle_evals += rep.sets_checked;
    sim.stats.probe_n("records_compared", rep.records_checked);
    if rep.records_checked > 0 {
        sim.stats.nontrivial = true;
    }
    probes_from_walk(sim, &w);
    outcome_class(&r) + if w.fully_known() { 0 } else { 4 }
}

pub fn probes_from_walk(sim: &mut Sim, w: &Walk) {
    for pk in &w.pkts {
        let sets = match &pk.body {
            MBody::V9 { sets, .. } | MBody::Ipfix { sets, .. } => sets,
            _ => continue,
        };
        if sets.len() >= 3 {
            sim.stats.probe("packet_with_3plus_sets");
        }
        let mut seen_tpl = false;
        for s in sets {
            match &s.kind {
                MSetKind::Tpls { tpls, .. } => {
                    seen_tpl = true;
                    if tpls.len() > 1 {
                        sim.stats.probe("several_template_records_in_set");
                    }
                    for (_, t) in tpls {
                        if t.is_options() {
                            sim.stats.probe("options_template");
                        }
                        if t.all_fields().iter().any(|f| f.ent.is_some()) {
                            sim.stats.probe("enterprise_field");
                        }
                        if t.has_varlen() {
                            sim.stats.probe("varlen_field_template");
                        }
                        if t.has_zero_len() {
                            sim.stats.probe("zero_length_field_template");
                        }
                    }
                }
                MSetKind::Data { recs, pad, def, .. } => {
                    if seen_tpl {
                        sim.stats.probe("template_and_data_in_same_packet");
                    }
                    if recs.len() > 1 {
                        sim.stats.probe("multi_record_data_set");
                    }
                    if !pad.is_empty() {
                        sim.stats.probe("data_set_with_padding");
                    }
                    if def.is_options() {
                        sim.stats.probe("ipfix_options_data");
                    }
                    for r in recs {
                        for f in &r.fields {
                            if f.prefix.len() == 3 {
                                sim.stats.probe("varlen_3_byte_length_form");
                            }
                            if f.dt == Dt::Unknown {
                                sim.stats.probe("unknown_field_type_value");
                            }
                        }
                    }
                }
                MSetKind::V9OData { recs, .. } => {
                    sim.stats.probe("v9_options_data");
                    if recs.len() > 1 {
                        sim.stats.probe("v9_options_data_multi_record");
                    }
                }
                MSetKind::UnknownTpl { .. } => sim.stats.probe("data_before_template"),
            }
        }
    }
}

// ------------------------------------------------------------------------------------------
// C06
// ------------------------------------------------------------------------------------------

fn strip_tainted(s: &CacheSnap, m: &MCache) -> CacheSnap {
    s.iter().filter(|(k, _)| !m.tainted.contains(&(k.0, k.2))).map(|(k, v)| (k.clone(), v.clone())).collect()
}

/// Re-decodes a data set body with an alternative definition and says whether the library's
/// output is exactly that (=> it used a stale or foreign template).
fn decoded_with_other_def(sim: &Sim, d: &Delivery, pk: &MPkt, k: usize, got: &FSet) -> Option<String> {
    let (proto, sets) = match &pk.body {
        MBody::V9 { sets, .. } => (Proto::V9, sets),
        MBody::Ipfix { sets, .. } => (Proto::Ipfix, sets),
        _ => return None,
    };
    let s = &sets[k];
    let (tid, cur) = match &s.kind {
        MSetKind::Data { tid, def, .. } | MSetKind::V9OData { tid, def, .. } => (*tid, def.clone()),
        _ => return None,
    };
    // any definition seen anywhere in this run: an older one of this id, the same id in another
    // parser or protocol, or another id altogether (lookup under a wrong key)
    for ((hp, hproto, hid), defs) in &sim.history {
        for def in defs {
            if *def == cur {
                continue;
            }
            // the other protocol's flavour of options templates cannot be applied here
            let usable = match (proto, def) {
                (Proto::V9, TDef::IpOpt { .. }) | (Proto::Ipfix, TDef::V9Opt { .. }) => false,
                (Proto::V9, TDef::Tpl { fields, .. }) => fields.iter().all(|f| f.ent.is_none() && f.len != 65535 && f.len != 0),
                _ => true,
            };
            if !usable {
                continue;
            }
            // decode this set alone under `def`
            let mut tmp = MCache::default();
            tmp.map_mut(proto).insert(tid, def.clone());
            let one = rebuild_single_set_packet(d.buf, pk, s);
            let w2 = walk(&one, &mut tmp, &[9, 10], &sim.mcfg);
            if !w2.conformant() || w2.pkts.len() != 1 {
                continue;
            }
            let e2 = expect_sets(&one, &w2.pkts[0]);
            if e2.len() == 1 && (e2[0].correct.as_ref() == Some(got) || e2[0].defective.iter().any(|(_, f)| f == got)) {
                return Some(format!(
                    "data set for id {} was decoded with a definition that is not the latest one this parser received for this id and protocol: {:?} (a definition of id {} seen on parser {} / {:?})",
                    tid, def, hid, hp, hproto
                ));
            }
        }
    }
    None
}

/// A one-set packet of the same protocol carrying exactly this set (for re-decoding).
fn rebuild_single_set_packet(buf: &[u8], pk: &MPkt, s: &MSet) -> Vec<u8> {
    let body = &buf[s.off..s.off + usize::from(s.len)];
    if pk.version == 9 {
        let mut v = vec![0, 9, 0, 1];
        v.extend_from_slice(&buf[pk.start + 4..pk.start + 20]);
        v.extend_from_slice(body);
        v
    } else {
        let mut v = vec![0, 10];
        v.extend_from_slice(&((16 + body.len()) as u16).to_be_bytes());
        v.extend_from_slice(&buf[pk.start + 4..pk.start + 16]);
        v.extend_from_slice(body);
        v
    }
}

fn c06(sim: &mut Sim, d: &Delivery) -> u64 {
    let pre = snap(&sim.parsers[d.p]);
    let split_fork = if d.parts.len() >= 2 && d.cut.is_none() { Some(fork(&sim.parsers[d.p])) } else { None };
    let Some(r) = primary(sim, "C06", d) else { return 3 };
    let post = snap(&sim.parsers[d.p]);
    sim.stats.oracle_evals += 1;
    // (weak, any input) nothing lost, nothing invented
    cache_weak(sim, "C06", d, &pre, &post);
    // (3) a buffer of a disallowed first version changes nothing
    if d.buf.len() >= 2 {
        let v = u16::from(d.buf[0]) << 8 | u16::from(d.buf[1]);
        if !sim.cfgs[d.p].allowed.contains(&v) {
            sim.stats.probe("disallowed_version_delivery");
            if pre != post {
                sim.find("C06-cache-changed-by-disallowed-version", d.ev, "caches changed by a buffer whose version is not allowed".into());
            }
        }
        let single_fixed = crate::model::frame(d.buf).map(|f| f.len() == 1).unwrap_or(false);
        if (v == 5 || v == 7) && single_fixed && pre != post {
            sim.find("C06-cache-changed-by-fixed-format-packet", d.ev, format!("caches changed by a V{} packet", v));
        }
    }
    let model_before = sim.models[d.p].clone();
    let w = model_step(sim, d, &post);
    templates_around_unknown_kept(sim, "C06", d, &w, &r, &pre, &post);
    if w.fully_known() {
        // (1) exact refinement: the real caches are the model's
        let real = strip_tainted(&post, &sim.models[d.p]);
        let want = strip_tainted(&model_snap(&sim.models[d.p]), &sim.models[d.p]);
        if real != want {
            let diff = diff_snaps(&want, &real);
            sim.find("C06-cache-differs-from-model", d.ev, format!("after a conformant delivery the template caches are not {{latest definition per id, nothing evicted, nothing foreign}}: {}", diff));
        }
        // (2) latest wins: every data set decoded with the current definition
        for version in [9u16, 10] {
            let before = sim.findings.len();
            let rep = compare_decode(sim, "TMP", version, d, &w, &r);
            sim.stats.probe_n("data_sets_checked_against_latest", rep.sets_checked);
            // only mismatches explained by a stale / foreign definition are C06's
            let new: Vec<Finding> = sim.findings.drain(before..).collect();
            for f in new {
                if f.code.starts_with("KF-") {
                    continue;
                }
                if f.code == "TMP-set-decode-mismatch" {
                    if let Some(msg) = explain_stale(sim, d, &w, &r, version) {
                        sim.find("C06-stale-or-foreign-template-used", d.ev, msg);
                    } else {
                        sim.stats.probe("decode_mismatch_not_attributable_to_cache");
                        if std::env::var("NFSIM_DEBUG_C06").is_ok() {
                            sim.find("DBG-decode-mismatch", d.ev, f.message.clone());
                        }
                    }
                }
            }
        }
        if model_before != sim.models[d.p] {
            sim.stats.probe("cache_changing_delivery");
            sim.stats.nontrivial = true;
        }
    }
    // (5) independence from the partition into calls
    if let Some(mut f) = split_fork {
        if crate::model::frame(d.buf).map(|fr| fr.iter().map(|x| x.1).collect::<Vec<_>>()) == Some(d.parts.to_vec()) {
            let mut pos = 0;
            let mut all: Vec<NetflowPacket> = Vec::new();
            let mut ok = true;
            for l in d.parts {
                match call(&mut f, &d.buf[pos..pos + l]) {
                    Called::Ok(x) => {
                        let had_err = x.iter().any(is_err);
                        all.extend(x);
                        if had_err {
                            ok = false;
                            break;
                        }
                    }
                    Called::Panic(_) => {
                        ok = false;
                        break;
                    }
                }
                pos += l;
            }
            let allowed_all = frame(d.buf).unwrap().iter().all(|(v, _)| sim.cfgs[d.p].allowed.contains(v));
            if ok && allowed_all && !r.iter().any(is_err) {
                sim.stats.probe("split_vs_coalesced_compared");
                let a: Vec<String> = r.iter().map(dbg).collect();
                let b: Vec<String> = all.iter().map(dbg).collect();
                if a != b {
                    sim.find("C06-result-depends-on-call-partition", d.ev, "decoded result differs between one call and one call per packet".into());
                } else if snap(&f) != post {
                    sim.find("C06-cache-depends-on-call-partition", d.ev, "template caches differ between one call and one call per packet".into());
                }
            }
        }
    }
    if d.faults.iter().any(|f| f == "heal") {
        sim.stats.probe("heal_delivery");
        if !w.fully_known() && !w.has_tainted() {
            sim.find("C06-heal-not-decodable", d.ev, format!("after faults stopped and templates were refreshed, this delivery still does not decode: {:?}", w.stop));
        }
    }
    outcome_class(&r) + if w.fully_known() { 0 } else { 4 }
}

fn explain_stale(sim: &Sim, d: &Delivery, w: &Walk, r: &[NetflowPacket], version: u16) -> Option<String> {
    let offs = offsets(d.buf, r)?;
    for pk in &w.pkts {
        if pk.version != version || (pk.version == 9 && pk.has_unknown) {
            continue;
        }
        let i = (0..r.len()).find(|i| offs[*i] == pk.start && !is_err(&r[*i]))?;
        let fp = match &r[i] {
            NetflowPacket::V9(x) => flat_v9(x),
            NetflowPacket::IPFix(x) => flat_ipfix(x),
            _ => continue,
        };
        let exp = expect_sets(d.buf, pk);
        for k in 0..fp.sets.len().min(exp.len()) {
            let got = &fp.sets[k].2;
            if Some(got) == exp[k].correct.as_ref() || exp[k].defective.iter().any(|(_, f)| f == got) {
                continue;
            }
            if let Some(m) = decoded_with_other_def(sim, d, pk, k, got) {
                return Some(m);
            }
        }
    }
    None
}

pub fn diff_snaps(want: &CacheSnap, real: &CacheSnap) -> String {
    let mut out = Vec::new();
    for (k, v) in want {
        match real.get(k) {
            None => out.push(format!("missing {:?}", k)),
            Some(r) if r != v => out.push(format!("{:?}: model {:?} real {:?}", k, v, r)),
            _ => {}
        }
    }
    for k in real.keys() {
        if !want.contains_key(k) {
            out.push(format!("unexpected {:?} = {:?}", k, real[k]));
        }
    }
    trunc(&out.join("; "), 1200)
}

// ------------------------------------------------------------------------------------------
// C07
// ------------------------------------------------------------------------------------------

fn c07(sim: &mut Sim, d: &Delivery) -> u64 {
    let pre = snap(&sim.parsers[d.p]);
    let lead_fork = fork(&sim.parsers[d.p]);
    let Some(r) = primary(sim, "C07", d) else { return 3 };
    let post = snap(&sim.parsers[d.p]);
    let model_pre = sim.models[d.p].clone();
    let w = model_step(sim, d, &post);
    if !w.conformant() {
        return outcome_class(&r) + 4;
    }
    let has_unknown = matches!(w.stop, Stop::V9Unknown { .. }) || w.pkts.iter().any(|p| p.has_unknown);
    // the V9 clause (error carrying the bytes from the packet on) is itself about the shape of
    // the result; the IPFIX clauses locate messages through the decomposition
    let ipfix_only = !matches!(w.stop, Stop::V9Unknown { .. });
    if has_unknown && ipfix_only && !decomposes(sim, d, &r) {
        return outcome_class(&r) + 8;
    }
    if has_unknown {
        sim.stats.oracle_evals += 1;
        sim.stats.nontrivial = true;
        // caches: nothing may come from the undecodable data set
        cache_weak(sim, "C07", d, &pre, &post);
        templates_around_unknown_kept(sim, "C07", d, &w, &r, &pre, &post);
        let Some(offs) = offsets(d.buf, &r) else { return 1 };
        if let Stop::V9Unknown { off } = w.stop {
            sim.stats.probe("v9_data_for_unknown_template");
            match r.last() {
                Some(NetflowPacket::Error(e)) if e.remaining == d.buf[off..] => {}
                _ => {
                    sim.find(
                        "C07-v9-unknown-template-not-an-error",
                        d.ev,
                        format!("V9 packet at offset {} has a data flowset for a template this parser does not hold, but the result does not end with an error carrying the bytes from that offset", off),
                    );
                    return 1;
                }
            }
            // earlier packets are still reported, exactly as if delivered alone
            let n_before = w.pkts.len() - 1;
            if r.len() != n_before + 1 {
                sim.find("C07-earlier-packets-lost", d.ev, format!("{} packets precede the failing V9 packet, {} elements returned before the error", n_before, r.len() - 1));
                return 1;
            }
            if off > 0 {
                sim.stats.probe("unknown_template_after_earlier_packets");
                let mut f = lead_fork;
                if let Called::Ok(x) = call(&mut f, &d.buf[..off]) {
                    let a: Vec<String> = x.iter().map(dbg).collect();
                    let b: Vec<String> = r[..r.len() - 1].iter().map(dbg).collect();
                    if a != b {
                        sim.find("C07-earlier-packets-changed", d.ev, "packets before the failing one differ from what parsing them alone returns".into());
                        return 1;
                    }
                }
            }
        }
        for pk in w.pkts.iter().filter(|p| p.version == 10 && p.has_unknown) {
            sim.stats.probe("ipfix_data_for_unknown_template");
            let Some(i) = (0..r.len()).find(|i| offs[*i] == pk.start) else { continue };
            let NetflowPacket::IPFix(x) = &r[i] else {
                sim.find("C07-ipfix-message-not-reported", d.ev, format!("IPFIX message at offset {} with a set for an unknown template must still be reported (without that set)", pk.start));
                return 1;
            };
            let MBody::Ipfix { sets, .. } = &pk.body else { unreachable!() };
            // the returned sets must be a subsequence of the decodable sets, starting with all
            // sets before the first undecodable one
            let fp = flat_ipfix(x);
            let known: Vec<(u16, u16, usize)> = sets
                .iter()
                .enumerate()
                .filter(|(_, s)| !matches!(s.kind, MSetKind::UnknownTpl { .. }))
                .map(|(k, s)| (s.id, s.len, k))
                .collect();
            let mut ki = 0;
            for (id, len, body) in &fp.sets {
                let is_data = matches!(body, FSet::IpData { .. } | FSet::IpOData { .. });
                let mut found = false;
                while ki < known.len() {
                    let (kid, klen, _) = known[ki];
                    ki += 1;
                    if kid == *id && klen == *len {
                        found = true;
                        break;
                    }
                }
                if !found {
                    let unknown_ids: Vec<u16> = sets
                        .iter()
                        .filter_map(|s| if let MSetKind::UnknownTpl { tid } = s.kind { Some(tid) } else { None })
                        .collect();
                    if is_data && unknown_ids.contains(id) {
                        sim.find(
                            "C07-records-for-unknown-template",
                            d.ev,
                            format!("IPFIX message at offset {}: a set with id {} was decoded although this parser holds no IPFIX template {}", pk.start, id, id),
                        );
                    } else {
                        sim.find("C07-unexpected-set", d.ev, format!("IPFIX message at offset {}: returned set id {} len {} does not correspond to a decodable set of the message", pk.start, id, len));
                    }
                    return 1;
                }
            }
        }
        // sets/packets that are decodable are still decoded right
        for version in [9u16, 10] {
            let before = sim.findings.len();
            compare_decode(sim, "TMP", version, d, &w, &r);
            let new: Vec<Finding> = sim.findings.drain(before..).collect();
            for f in new {
                if f.code == "TMP-sets-missing" || f.code == "TMP-packet-not-reported" {
                    sim.find("C07-decodable-part-lost", d.ev, f.message);
                }
            }
        }
        let _ = model_pre;
    }
    if d.faults.iter().any(|f| f == "heal" || f == "replay") {
        // recovery: once the template is there, the data decodes normally
        sim.stats.probe("recovery_delivery");
        if d.faults.iter().any(|f| f == "replay") {
            sim.stats.probe("same_data_bytes_redelivered_after_template");
        }
        if w.has_tainted() {
            sim.stats.probe("recovery_not_judged_tainted");
        } else if !w.fully_known() {
            sim.find("C07-no-recovery", d.ev, format!("templates were (re)delivered, yet this delivery is still not decodable: {:?}", w.stop));
        } else {
            for version in [9u16, 10] {
                let before = sim.findings.len();
                let rep = compare_decode(sim, "TMP", version, d, &w, &r);
                sim.stats.probe_n("recovered_sets_decoded", rep.sets_checked);
                let new: Vec<Finding> = sim.findings.drain(before..).collect();
                for f in new {
                    if f.code.starts_with("KF-") {
                        continue;
                    }
                    if f.code == "TMP-packet-not-reported" || f.code == "TMP-sets-missing" || f.code == "TMP-set-count" {
                        sim.find("C07-no-recovery", d.ev, f.message);
                    }
                }
            }
        }
    }
    outcome_class(&r) + if has_unknown { 8 } else { 0 }
}

// ------------------------------------------------------------------------------------------
// C11
// ------------------------------------------------------------------------------------------

fn err_kind(e: &NetflowParseError) -> u8 {
    match e {
        NetflowParseError::Incomplete(_) => 0,
        NetflowParseError::Partial(_) => 1,
        NetflowParseError::UnallowedVersion(_) => 2,
        NetflowParseError::UnknownVersion(_) => 3,
        #[allow(unreachable_patterns)]
        _ => 9,
    }
}

/// One-call result vs. the same parts fed in `groups` consecutive calls.
fn compare_partition(
    sim: &mut Sim,
    prefix: &str,
    d: &Delivery,
    base: &NetflowParser,
    one: &[NetflowPacket],
    one_post: &CacheSnap,
    groups: &[usize],
) -> bool {
    let mut f = fork(base);
    let mut pos = 0usize;
    let mut all: Vec<NetflowPacket> = Vec::new();
    let mut err_at: Option<usize> = None;
    for g in groups {
        let Called::Ok(x) = call(&mut f, &d.buf[pos..pos + g]) else {
            sim.find("ABANDON-panic", d.ev, "fork panicked".into());
            return false;
        };
        let had_err = x.iter().any(is_err);
        all.extend(x);
        if had_err {
            err_at = Some(pos + g);
            break;
        }
        pos += g;
    }
    // elements up to (excluding) a final error must be identical
    let n_cmp = if err_at.is_some() { all.len() - 1 } else { all.len() };
    let one_n = if one.last().map(is_err).unwrap_or(false) { one.len() - 1 } else { one.len() };
    if one_n != n_cmp || err_at.is_some() != one.last().map(is_err).unwrap_or(false) {
        sim.find(
            &format!("{}-element-count-differs", prefix),
            d.ev,
            format!("one call returns {} packets{}, calls per group {:?} return {} packets{}", one_n, if one.len() > one_n { " + error" } else { "" }, groups, n_cmp, if err_at.is_some() { " + error" } else { "" }),
        );
        return false;
    }
    for i in 0..n_cmp {
        if dbg(&one[i]) != dbg(&all[i]) {
            sim.find(
                &format!("{}-element-differs", prefix),
                d.ev,
                format!("element {} differs between one call and calls per group {:?}", i, groups),
            );
            return false;
        }
    }
    if let Some(end) = err_at {
        let (NetflowPacket::Error(a), NetflowPacket::Error(b)) = (one.last().unwrap(), all.last().unwrap()) else { unreachable!() };
        let mut want = b.remaining.clone();
        want.extend_from_slice(&d.buf[end..]);
        if a.remaining != want || err_kind(&a.error) != err_kind(&b.error) {
            sim.find(&format!("{}-error-differs", prefix), d.ev, format!("final error differs between one call and calls per group {:?}", groups));
            return false;
        }
        // state: the V9 parser may have learned templates from the failing packet in both
        // cases alike; compare
    }
    if snap(&f) != *one_post {
        sim.find(
            &format!("{}-state-differs", prefix),
            d.ev,
            format!("parser state after one call differs from the state after calls per group {:?}: {}", groups, diff_snaps(one_post, &snap(&f))),
        );
        return false;
    }
    true
}

fn c11(sim: &mut Sim, d: &Delivery) -> u64 {
    let base = fork(&sim.parsers[d.p]);
    // the fork keeps the primary's allowed set
    let Some(r) = primary(sim, "C11", d) else { return 3 };
    let post = snap(&sim.parsers[d.p]);
    let fr = crate::model::frame(d.buf);
    let parts_ok = fr.as_ref().map(|f| f.iter().map(|x| x.1).collect::<Vec<_>>()) == Some(d.parts.to_vec());
    if !parts_ok || d.parts.len() < 2 || d.cut.is_some() {
        return outcome_class(&r) + 4;
    }
    let fr = fr.unwrap();
    if !fr.iter().all(|(v, _)| sim.cfgs[d.p].allowed.contains(v)) {
        sim.stats.probe("skipped_member_version_not_allowed");
        return outcome_class(&r) + 4;
    }
    sim.stats.nontrivial = true;
    sim.stats.probe("chained_delivery");
    let vs: std::collections::BTreeSet<u16> = fr.iter().map(|x| x.0).collect();
    if vs.len() >= 3 {
        sim.stats.probe("chain_with_3plus_versions");
    }
    if r.iter().any(is_err) {
        sim.stats.probe("chain_with_failing_member");
    }
    let n = d.parts.len();
    let mut masks: Vec<u32> = Vec::new();
    let exhaustive_up_to = if crate::profiles::thorough() { 8 } else { 5 };
    if n <= exhaustive_up_to {
        masks.extend(0..(1u32 << (n - 1)));
    } else {
        // deterministic sample: all-split, all-joined-but-one, and a few derived from the bytes
        let mut dgst = crate::rng::Digest::default();
        dgst.bytes(&d.buf[..d.buf.len().min(64)]);
        let mut rng = crate::rng::Rng::new(dgst.finish());
        masks.push((1u32 << (n - 1).min(31)) - 1);
        masks.push(1);
        for _ in 0..6 {
            masks.push((rng.next_u64() as u32) & ((1u32 << (n - 1).min(31)) - 1));
        }
    }
    for m in masks {
        if m == 0 {
            continue; // the one-call partition itself
        }
        // bit i set => cut after part i
        let mut groups = Vec::new();
        let mut acc = 0usize;
        for (i, l) in d.parts.iter().enumerate() {
            acc += l;
            if i + 1 == n || (i < 31 && m >> i & 1 == 1) {
                groups.push(acc);
                acc = 0;
            }
        }
        sim.stats.oracle_evals += 1;
        if !compare_partition(sim, "C11", d, &base, &r, &post, &groups) {
            break;
        }
    }
    outcome_class(&r)
}

// ------------------------------------------------------------------------------------------
// C12
// ------------------------------------------------------------------------------------------

fn c12(sim: &mut Sim, d: &Delivery) -> u64 {
    let base = fork(&sim.parsers[d.p]);
    let s_set = sim.cfgs[d.p].allowed.clone();
    let Some(r) = primary(sim, "C12", d) else { return 3 };
    let post = snap(&sim.parsers[d.p]);
    sim.stats.oracle_evals += 1;
    // F: a parser allowing every version that matters for this buffer. Grown until the
    // all-allowed parse no longer stops silently.
    let mut all: Vec<u16> = s_set.clone();
    for v in [5u16, 7, 9, 10] {
        if !all.contains(&v) {
            all.push(v);
        }
    }
    let mut rf;
    let mut guard = 0;
    loop {
        let mut f = fork_allowing(&base, &all);
        rf = match call(&mut f, d.buf) {
            Called::Ok(x) => x,
            Called::Panic(_) => {
                sim.find("ABANDON-panic", d.ev, "fork panicked".into());
                return 3;
            }
        };
        let ends_err = rf.last().map(is_err).unwrap_or(false);
        let consumed: usize = rf.iter().filter_map(wire_len).sum();
        if ends_err || consumed + 2 > d.buf.len() {
            break;
        }
        let v = u16::from(d.buf[consumed]) << 8 | u16::from(d.buf[consumed + 1]);
        if all.contains(&v) {
            break; // C02's business
        }
        all.push(v);
        guard += 1;
        if guard > 4096 {
            break;
        }
    }
    // longest prefix of rf whose version fields are all in S (located through rf's own
    // decomposition of the buffer: if that is broken, C02 reports it, not this check)
    if c02_relation(d.buf, &all, &rf).is_err() {
        sim.stats.probe("not_judged_result_is_not_a_decomposition");
        return outcome_class(&r);
    }
    let Some(offs) = offsets(d.buf, &rf) else { return 1 };
    let mut keep = 0usize;
    let mut stop_off = d.buf.len();
    for (i, el) in rf.iter().enumerate() {
        let o = offs[i];
        if d.buf.len() - o < 2 {
            // an error about a single trailing byte has no version field; it is reported iff
            // it is reached
            keep = i + 1;
            continue;
        }
        let v = u16::from(d.buf[o]) << 8 | u16::from(d.buf[o + 1]);
        let _ = el;
        if s_set.contains(&v) {
            keep = i + 1;
        } else {
            stop_off = o;
            break;
        }
    }
    if keep < rf.len() {
        sim.stats.probe("excluded_member_present");
        sim.stats.nontrivial = true;
        if keep > 0 {
            sim.stats.probe("excluded_member_after_reported_ones");
        }
    }
    let a: Vec<String> = r.iter().map(dbg).collect();
    let b: Vec<String> = rf[..keep].iter().map(dbg).collect();
    if a != b {
        sim.find(
            "C12-not-the-allowed-prefix",
            d.ev,
            format!("allowed {:?}: result has {} elements; the all-versions parser returns {} elements of which the leading {} have allowed versions; they differ", s_set, r.len(), rf.len(), keep),
        );
        return 1;
    }
    // caches: as if only the bytes before the first excluded packet had been fed
    let mut g = fork_allowing(&base, &all);
    if let Called::Ok(_) = call(&mut g, &d.buf[..stop_off]) {
        if snap(&g) != post {
            sim.find(
                "C12-excluded-packet-changed-caches",
                d.ev,
                format!("caches differ from those of a parser fed only the {} bytes before the first excluded packet: {}", stop_off, diff_snaps(&snap(&g), &post)),
            );
            return 1;
        }
    }
    // allowed but not 5/7/9/10 => UnknownVersion error carrying the unparsed bytes
    if let Some(NetflowPacket::Error(e)) = r.last() {
        if e.remaining.len() >= 2 {
            let v = u16::from(e.remaining[0]) << 8 | u16::from(e.remaining[1]);
            if s_set.contains(&v) && ![5, 7, 9, 10].contains(&v) {
                sim.stats.probe("allowed_unknown_version");
                sim.stats.nontrivial = true;
                match &e.error {
                    NetflowParseError::UnknownVersion(rest) if rest[..] == e.remaining[2..] => {}
                    other => {
                        sim.find("C12-unknown-version-error-shape", d.ev, format!("version {} is allowed but unknown; expected UnknownVersion carrying the bytes after the version field, got {:?}", v, trunc(&format!("{:?}", other), 200)));
                    }
                }
            }
        }
    }
    // converse: where the result stops at an allowed-unknown version there must be that error
    let consumed: usize = r.iter().filter_map(wire_len).sum();
    if !r.last().map(is_err).unwrap_or(false) && consumed + 2 <= d.buf.len() {
        let v = u16::from(d.buf[consumed]) << 8 | u16::from(d.buf[consumed + 1]);
        if s_set.contains(&v) && ![5, 7, 9, 10].contains(&v) {
            sim.find("C12-unknown-version-not-reported", d.ev, format!("version {} is allowed but unknown and no error was reported for it", v));
        }
    }
    outcome_class(&r)
}

// ------------------------------------------------------------------------------------------
// C14
// ------------------------------------------------------------------------------------------

fn c14(sim: &mut Sim, d: &Delivery) -> u64 {
    let base = fork(&sim.parsers[d.p]);
    let Some(r) = primary(sim, "C14", d) else { return 3 };
    let post = snap(&sim.parsers[d.p]);
    let Some(k) = d.cut else { return outcome_class(&r) + 4 };
    let fr = crate::model::frame(d.full);
    let parts_ok = fr.as_ref().map(|f| f.iter().map(|x| x.1).collect::<Vec<_>>()) == Some(d.parts.to_vec());
    if !parts_ok || d.parts.is_empty() {
        return outcome_class(&r) + 4;
    }
    let fr = fr.unwrap();
    if !fr.iter().all(|(v, _)| sim.cfgs[d.p].allowed.contains(v)) {
        return outcome_class(&r) + 4;
    }
    let last_start: usize = d.parts[..d.parts.len() - 1].iter().sum();
    if k <= last_start || k >= d.full.len() {
        return outcome_class(&r) + 4; // cut not strictly inside the last packet
    }
    // precondition: the intact buffer is a sequence of valid packets for this parser state
    let mut v = fork(&base);
    let Called::Ok(rv) = call(&mut v, d.full) else { return 3 };
    if rv.iter().any(is_err) || rv.len() != d.parts.len() {
        sim.stats.probe("skipped_intact_not_valid");
        return outcome_class(&r) + 4;
    }
    let (ver, _) = fr[fr.len() - 1];
    if ver == 9 {
        // cut points on a flowset boundary are excluded by the property
        let mut pos = last_start + 20;
        let mut on_boundary = k == pos;
        while pos + 4 <= d.full.len() && pos < k {
            let l = usize::from(u16::from(d.full[pos + 2]) << 8 | u16::from(d.full[pos + 3])).max(4);
            pos += l;
            if pos == k {
                on_boundary = true;
            }
        }
        if on_boundary {
            sim.stats.probe("v9_cut_on_flowset_boundary_excluded");
            return outcome_class(&r) + 4;
        }
    }
    sim.stats.oracle_evals += 1;
    sim.stats.nontrivial = true;
    sim.stats.probe(&format!("truncated_v{}", ver));
    if d.parts.len() > 1 {
        sim.stats.probe("truncated_after_intact_packets");
    }
    if d.full.len() - k == 1 {
        sim.stats.probe("cut_one_byte_short");
    }
    let mut a = fork(&base);
    let Called::Ok(ra) = call(&mut a, &d.full[..last_start]) else { return 3 };
    let want_rem = &d.full[last_start..k];
    let ok_shape = r.len() == ra.len() + 1
        && matches!(r.last(), Some(NetflowPacket::Error(e)) if e.remaining == want_rem)
        && r[..ra.len()].iter().map(dbg).eq(ra.iter().map(dbg));
    if !ok_shape {
        let what = match r.last() {
            Some(NetflowPacket::Error(e)) => format!("last element is an error with {} remaining bytes (truncated packet has {})", e.remaining.len(), want_rem.len()),
            Some(p) => format!("last element is a decoded v{} packet", version_of(p).unwrap_or(0)),
            None => "empty result".into(),
        };
        sim.find(
            "C14-truncated-packet-not-an-error",
            d.ev,
            format!("v{} packet of {} bytes cut to {} bytes after {} intact packets: expected the intact packets followed by one error holding the truncated bytes; {} elements returned, {}", ver, d.parts[d.parts.len() - 1], k - last_start, d.parts.len() - 1, r.len(), what),
        );
        return 1;
    }
    if ver != 9 && snap(&a) != post {
        sim.find("C14-truncated-packet-changed-caches", d.ev, format!("a truncated v{} packet changed the template caches: {}", ver, diff_snaps(&snap(&a), &post)));
    }
    1
}

// ------------------------------------------------------------------------------------------
// C09 / C10 / C13 / C16 / C17 wrappers
// ------------------------------------------------------------------------------------------

fn c09_c10(sim: &mut Sim, prop: &str, d: &Delivery) -> u64 {
    let Some(r) = primary(sim, prop, d) else { return 3 };
    let post = snap(&sim.parsers[d.p]);
    let w = model_step(sim, d, &post);
    export::check(sim, prop, d, &w, &r);
    outcome_class(&r) + if w.fully_known() { 0 } else { 4 }
}

fn c13_wrap(sim: &mut Sim, d: &Delivery) -> u64 {
    let base = fork(&sim.parsers[d.p]);
    let Some(r) = primary(sim, "C13", d) else { return 3 };
    let post = snap(&sim.parsers[d.p]);
    let w = model_step(sim, d, &post);
    c13::check(sim, d, &w, &r, base);
    outcome_class(&r) + if w.fully_known() { 0 } else { 4 }
}

fn c17(sim: &mut Sim, d: &Delivery) -> u64 {
    // (a) The same simulated runs are executed by two binaries, built with and without the
    // feature; what the library returns, re-exports and projects is folded into the run digest
    // here and compared across the two builds by the orchestrator for runs whose templates hold
    // only fields the library knows. (b) below is judged against the model in the off build.
    let Some(r) = primary(sim, "C17", d) else { return 3 };
    let post = snap(&sim.parsers[d.p]);
    let w = model_step(sim, d, &post);
    let mut dg = crate::rng::Digest::default();
    dg.bytes(&sim.last_outcome);
    for el in &r {
        let exported: Option<Result<Vec<u8>, String>> = std::panic::catch_unwind(std::panic::AssertUnwindSafe(|| match el {
            NetflowPacket::V9(x) => Some(x.to_be_bytes().map_err(|e| e.to_string())),
            NetflowPacket::IPFix(x) => Some(x.to_be_bytes().map_err(|e| e.to_string())),
            NetflowPacket::V5(x) => Some(Ok(x.to_be_bytes())),
            NetflowPacket::V7(x) => Some(Ok(x.to_be_bytes())),
            NetflowPacket::Error(_) => None,
            #[allow(unreachable_patterns)]
            _ => None,
        }))
        .unwrap_or(Some(Err("panic".into())));
        match exported {
            Some(Ok(b)) => dg.bytes(&b),
            Some(Err(e)) => dg.str(&e),
            None => dg.str("-"),
        }
        match std::panic::catch_unwind(std::panic::AssertUnwindSafe(|| el.as_netflow_common())) {
            Ok(Ok(c)) => dg.str(&format!("{:?}", c)),
            Ok(Err(_)) => dg.str("common-err"),
            Err(_) => dg.str("common-panic"),
        }
        sim.stats.oracle_evals += 1;
    }
    sim.last_outcome = dg.finish().to_le_bytes().to_vec();
    // which runs are comparable across builds: those without any field the library does not know
    for pk in &w.pkts {
        if let MBody::V9 { sets, .. } | MBody::Ipfix { sets, .. } = &pk.body {
            for s in sets {
                match &s.kind {
                    MSetKind::Tpls { tpls, .. } => {
                        for (_, t) in tpls {
                            let proto = if pk.version == 9 { Proto::V9 } else { Proto::Ipfix };
                            if t.all_fields().iter().any(|f| f.ent.is_none() && (if proto == Proto::V9 { v9_dt(f.typ) } else { ipfix_dt(f.typ) }) == Dt::Unknown && !matches!(t, TDef::V9Opt { .. })) {
                                sim.stats.probe("unknown_field_in_template");
                            }
                        }
                    }
                    MSetKind::Data { recs, .. } => {
                        if !recs.is_empty() {
                            sim.stats.nontrivial = true;
                            sim.stats.probe_n("records_in_both_builds", recs.len() as u64);
                        }
                    }
                    _ => {}
                }
            }
        }
    }
    if !w.conformant() {
        // garbage may hold unknown field numbers the model did not see
        sim.stats.probe("unknown_field_in_template");
    }
    // (c) feature off: whatever holds only known fields decodes as the bytes and the governing
    // template say, also on a parser that met unknown fields before (the cross-build
    // comparison (a) covers only runs without any unknown field)
    if !UNKNOWN_FIELDS_ON {
        for version in [9u16, 10] {
            let before = sim.findings.len();
            let rep = compare_decode(sim, "TMP", version, d, &w, &r);
            sim.stats.probe_n("feature_off_sets_checked_against_model", rep.sets_checked);
            let new: Vec<Finding> = sim.findings.drain(before..).collect();
            if let Some(f) = new.into_iter().find(|f| !f.code.starts_with("KF-")) {
                sim.find("C17-feature-off-known-fields-not-decoded", d.ev, format!("built without parse_unknown_fields: {}", f.message));
                break;
            }
        }
    }
    // (b) feature off: a record containing a field the library does not know is not reported
    if !UNKNOWN_FIELDS_ON && w.conformant() && decomposes(sim, d, &r) {
        if let Some(offs) = offsets(d.buf, &r) {
            for pk in &w.pkts {
                let sets = match &pk.body {
                    MBody::V9 { sets, .. } | MBody::Ipfix { sets, .. } => sets,
                    _ => continue,
                };
                let Some(i) = (0..r.len()).find(|i| offs[*i] == pk.start && !is_err(&r[*i])) else { continue };
                let fp = match &r[i] {
                    NetflowPacket::V9(x) => flat_v9(x),
                    NetflowPacket::IPFix(x) => flat_ipfix(x),
                    _ => continue,
                };
                // align returned sets with the model's by (id, length), in order: IPFIX omits the
                // sets it cannot decode
                let mut gi = 0usize;
                for s in sets.iter() {
                    let here = fp.sets.get(gi).filter(|(id, len, _)| *id == s.id && *len == s.len);
                    if here.is_some() {
                        gi += 1;
                    }
                    let MSetKind::Data { recs, .. } = &s.kind else { continue };
                    if s.tainted {
                        continue;
                    }
                    let has_unknown = recs.iter().any(|r| r.fields.iter().any(|f| f.val == Err(Why::UnknownFieldOff)));
                    if !has_unknown {
                        continue;
                    }
                    sim.stats.probe("unknown_field_record_with_feature_off");
                    sim.stats.nontrivial = true;
                    let reported = match here {
                        Some((id, _, FSet::V9Data { recs, .. })) if *id == s.id => !recs.is_empty(),
                        Some((id, _, FSet::IpData { vals, .. })) | Some((id, _, FSet::IpOData { vals, .. })) if *id == s.id => !vals.is_empty(),
                        _ => false,
                    };
                    if reported {
                        sim.find("C17-unknown-field-record-reported", d.ev, format!("feature parse_unknown_fields is off, template {} has a field the library does not know, yet records of its data set are reported", s.id));
                    }
                }
            }
        }
    }
    // digest line for the cross-build comparison
    outcome_class(&r) + if w.fully_known() { 0 } else { 4 }
}

pub fn deliver(sim: &mut Sim, prop: &str, d: &Delivery) -> u64 {
    match prop {
        "C01" => c01(sim, d),
        "C02" => c02(sim, d),
        "C04" | "C05" => c04_c05(sim, prop, d),
        "C06" => c06(sim, d),
        "C07" => c07(sim, d),
        "C09" | "C10" => c09_c10(sim, prop, d),
        "C11" => c11(sim, d),
        "C12" => c12(sim, d),
        "C13" => c13_wrap(sim, d),
        "C14" => c14(sim, d),
        "C15" => c15::deliver(sim, d),
        "C16" => c16::deliver(sim, d),
        "C17" => c17(sim, d),
        _ => panic!("unknown property {}", prop),
    }
}

pub fn finish(sim: &mut Sim, prop: &str, trace: &Trace) {
    // (the replica is fed under the final `allowed_versions`: not comparable after a run-time change)
    if prop == "C06" && sim.findings.iter().all(|f| f.code.starts_with("KF-")) && !sim.stats.probes.contains_key("allowed_versions_changed_at_run_time") && !sim.stats.probes.contains_key("caches_reset_at_run_time") {
        let last = trace.events.len().saturating_sub(1);
        // (6) replica-from-scratch: the public caches are the whole state
        for p in 0..sim.parsers.len() {
            // the replica gets other hash keys: what a parser holds is a function of its history,
            // not of the iteration order of its hashed collections
            let mut rc = sim.cfgs[p].clone();
            rc.hash_seed = rc.hash_seed.rotate_left(17) ^ 0x5bd1_e995_9e37_79b9;
            rc.allowed.reverse();
            let mut f = make_parser(&rc);
            let mut ok = true;
            for b in &sim.fed[p] {
                if let Called::Panic(_) = call(&mut f, b) {
                    ok = false;
                    break;
                }
            }
            if ok && snap(&f) != snap(&sim.parsers[p]) {
                sim.find("C06-replica-differs", last, format!("a fresh parser fed the same {} buffers ends with different caches than parser {}", sim.fed[p].len(), p));
            }
            // nothing evicted: every id the model knows is still there
            let real = snap(&sim.parsers[p]);
            for (k, _) in model_snap(&sim.models[p]) {
                if !real.contains_key(&k) && !sim.models[p].tainted.contains(&(k.0, k.2)) {
                    sim.find("C06-template-evicted", last, format!("template {:?} is no longer cached at the end of the run", k));
                }
            }
        }
        // (4) decoy: a parser that never received anything knows nothing
        for p in 0..sim.parsers.len() {
            if sim.fed[p].is_empty() && sim.stats.restarts == 0 && !snap(&sim.parsers[p]).is_empty() {
                sim.find("C06-leak-into-idle-parser", last, format!("parser {} never received a byte but holds templates", p));
            }
        }
    }
    if prop == "C15" {
        c15::finish(sim, trace);
    }
}
