//! Independent JSON reader (RFC 8259), own code: serde_json is never used for *reading* in
//! the C16 oracle. Objects keep their key order; numbers keep their literal text.

#[derive(Debug, Clone, PartialEq)]
pub enum J {
    Null,
    Bool(bool),
    /// literal text of the number as it appears
    Num(String),
    Str(String),
    Arr(Vec<J>),
    Obj(Vec<(String, J)>),
}

pub struct P<'a> {
    b: &'a [u8],
    i: usize,
    depth: usize,
}

pub fn parse(s: &str) -> Result<J, String> {
    let mut p = P { b: s.as_bytes(), i: 0, depth: 0 };
    p.ws();
    let v = p.value()?;
    p.ws();
    if p.i != p.b.len() {
        return Err(format!("trailing characters at {}", p.i));
    }
    Ok(v)
}

impl<'a> P<'a> {
    fn ws(&mut self) {
        while self.i < self.b.len() && matches!(self.b[self.i], b' ' | b'\t' | b'\n' | b'\r') {
            self.i += 1;
        }
    }
    fn peek(&self) -> Option<u8> {
        self.b.get(self.i).copied()
    }
    fn expect(&mut self, lit: &[u8]) -> Result<(), String> {
        if self.b.len() - self.i >= lit.len() && &self.b[self.i..self.i + lit.len()] == lit {
            self.i += lit.len();
            Ok(())
        } else {
            Err(format!("expected {:?} at {}", std::str::from_utf8(lit).unwrap(), self.i))
        }
    }
    fn value(&mut self) -> Result<J, String> {
        self.depth += 1;
        if self.depth > 256 {
            return Err("nesting too deep".into());
        }
        let r = match self.peek() {
            None => Err("unexpected end".into()),
            Some(b'n') => self.expect(b"null").map(|_| J::Null),
            Some(b't') => self.expect(b"true").map(|_| J::Bool(true)),
            Some(b'f') => self.expect(b"false").map(|_| J::Bool(false)),
            Some(b'"') => self.string().map(J::Str),
            Some(b'[') => {
                self.i += 1;
                let mut v = Vec::new();
                self.ws();
                if self.peek() == Some(b']') {
                    self.i += 1;
                } else {
                    loop {
                        self.ws();
                        v.push(self.value()?);
                        self.ws();
                        match self.peek() {
                            Some(b',') => self.i += 1,
                            Some(b']') => {
                                self.i += 1;
                                break;
                            }
                            _ => return Err(format!("expected , or ] at {}", self.i)),
                        }
                    }
                }
                Ok(J::Arr(v))
            }
            Some(b'{') => {
                self.i += 1;
                let mut v = Vec::new();
                self.ws();
                if self.peek() == Some(b'}') {
                    self.i += 1;
                } else {
                    loop {
                        self.ws();
                        if self.peek() != Some(b'"') {
                            return Err(format!("expected object key at {}", self.i));
                        }
                        let k = self.string()?;
                        self.ws();
                        self.expect(b":")?;
                        self.ws();
                        let val = self.value()?;
                        v.push((k, val));
                        self.ws();
                        match self.peek() {
                            Some(b',') => self.i += 1,
                            Some(b'}') => {
                                self.i += 1;
                                break;
                            }
                            _ => return Err(format!("expected , or }} at {}", self.i)),
                        }
                    }
                }
                Ok(J::Obj(v))
            }
            Some(c) if c == b'-' || c.is_ascii_digit() => self.number(),
            Some(c) => Err(format!("unexpected byte {:#x} at {}", c, self.i)),
        };
        self.depth -= 1;
        r
    }
    fn number(&mut self) -> Result<J, String> {
        let st = self.i;
        if self.peek() == Some(b'-') {
            self.i += 1;
        }
        match self.peek() {
            Some(b'0') => self.i += 1,
            Some(c) if c.is_ascii_digit() => {
                while matches!(self.peek(), Some(c) if c.is_ascii_digit()) {
                    self.i += 1;
                }
            }
            _ => return Err(format!("bad number at {}", self.i)),
        }
        if self.peek() == Some(b'.') {
            self.i += 1;
            if !matches!(self.peek(), Some(c) if c.is_ascii_digit()) {
                return Err(format!("bad fraction at {}", self.i));
            }
            while matches!(self.peek(), Some(c) if c.is_ascii_digit()) {
                self.i += 1;
            }
        }
        if matches!(self.peek(), Some(b'e') | Some(b'E')) {
            self.i += 1;
            if matches!(self.peek(), Some(b'+') | Some(b'-')) {
                self.i += 1;
            }
            if !matches!(self.peek(), Some(c) if c.is_ascii_digit()) {
                return Err(format!("bad exponent at {}", self.i));
            }
            while matches!(self.peek(), Some(c) if c.is_ascii_digit()) {
                self.i += 1;
            }
        }
        Ok(J::Num(std::str::from_utf8(&self.b[st..self.i]).unwrap().to_string()))
    }
    fn hex4(&mut self) -> Result<u32, String> {
        if self.b.len() - self.i < 4 {
            return Err("short \\u escape".into());
        }
        let mut v = 0u32;
        for k in 0..4 {
            let c = self.b[self.i + k];
            let d = match c {
                b'0'..=b'9' => c - b'0',
                b'a'..=b'f' => c - b'a' + 10,
                b'A'..=b'F' => c - b'A' + 10,
                _ => return Err(format!("bad hex in \\u escape at {}", self.i + k)),
            };
            v = v << 4 | u32::from(d);
        }
        self.i += 4;
        Ok(v)
    }
    fn string(&mut self) -> Result<String, String> {
        self.i += 1; // opening quote
        let mut out: Vec<u8> = Vec::new();
        loop {
            let Some(c) = self.peek() else { return Err("unterminated string".into()) };
            self.i += 1;
            match c {
                b'"' => break,
                b'\\' => {
                    let Some(e) = self.peek() else { return Err("unterminated escape".into()) };
                    self.i += 1;
                    match e {
                        b'"' => out.push(b'"'),
                        b'\\' => out.push(b'\\'),
                        b'/' => out.push(b'/'),
                        b'b' => out.push(8),
                        b'f' => out.push(12),
                        b'n' => out.push(b'\n'),
                        b'r' => out.push(b'\r'),
                        b't' => out.push(b'\t'),
                        b'u' => {
                            let mut cp = self.hex4()?;
                            if (0xD800..0xDC00).contains(&cp) {
                                if self.peek() == Some(b'\\') && self.b.get(self.i + 1) == Some(&b'u') {
                                    self.i += 2;
                                    let lo = self.hex4()?;
                                    if !(0xDC00..0xE000).contains(&lo) {
                                        return Err("bad low surrogate".into());
                                    }
                                    cp = 0x10000 + ((cp - 0xD800) << 10) + (lo - 0xDC00);
                                } else {
                                    return Err("lone high surrogate".into());
                                }
                            } else if (0xDC00..0xE000).contains(&cp) {
                                return Err("lone low surrogate".into());
                            }
                            let ch = char::from_u32(cp).ok_or("bad code point")?;
                            let mut buf = [0u8; 4];
                            out.extend_from_slice(ch.encode_utf8(&mut buf).as_bytes());
                        }
                        _ => return Err(format!("bad escape at {}", self.i)),
                    }
                }
                0..=0x1f => return Err(format!("raw control character in string at {}", self.i - 1)),
                _ => out.push(c),
            }
        }
        String::from_utf8(out).map_err(|_| "string is not UTF-8".to_string())
    }
}
