//! The only source of randomness in the simulator: splitmix64 for seed derivation and a
//! xoshiro256** stream per run. Nothing here reads a clock or the OS.

pub fn splitmix64(state: &mut u64) -> u64 {
    *state = state.wrapping_add(0x9E37_79B9_7F4A_7C15);
    let mut z = *state;
    z = (z ^ (z >> 30)).wrapping_mul(0xBF58_476D_1CE4_E5B9);
    z = (z ^ (z >> 27)).wrapping_mul(0x94D0_49BB_1331_11EB);
    z ^ (z >> 31)
}

/// run_seed = f(VERIF_SEED, property tag, run index)
pub fn derive_seed(verif_seed: u64, tag: u64, index: u64) -> u64 {
    let mut s = verif_seed ^ tag.wrapping_mul(0xA24B_AED4_963E_E407);
    let a = splitmix64(&mut s);
    let mut t = a ^ index.wrapping_mul(0x9FB2_1C65_1E98_DF25);
    splitmix64(&mut t)
}

#[derive(Clone, Debug)]
pub struct Rng {
    s: [u64; 4],
}

impl Rng {
    pub fn new(seed: u64) -> Self {
        let mut st = seed;
        let s = [
            splitmix64(&mut st),
            splitmix64(&mut st),
            splitmix64(&mut st),
            splitmix64(&mut st),
        ];
        Rng { s }
    }

    pub fn next_u64(&mut self) -> u64 {
        let result = self.s[1].wrapping_mul(5).rotate_left(7).wrapping_mul(9);
        let t = self.s[1] << 17;
        self.s[2] ^= self.s[0];
        self.s[3] ^= self.s[1];
        self.s[1] ^= self.s[2];
        self.s[0] ^= self.s[3];
        self.s[2] ^= t;
        self.s[3] = self.s[3].rotate_left(45);
        result
    }

    /// uniform in 0..n (n > 0)
    pub fn below(&mut self, n: u64) -> u64 {
        if n <= 1 {
            return 0;
        }
        // multiply-shift; the tiny bias is irrelevant here and keeps it branch-free
        ((u128::from(self.next_u64()) * u128::from(n)) >> 64) as u64
    }

    pub fn usize_below(&mut self, n: usize) -> usize {
        self.below(n as u64) as usize
    }

    /// inclusive range
    pub fn range(&mut self, lo: u64, hi: u64) -> u64 {
        if hi <= lo {
            return lo;
        }
        lo + self.below(hi - lo + 1)
    }

    pub fn urange(&mut self, lo: usize, hi: usize) -> usize {
        self.range(lo as u64, hi as u64) as usize
    }

    /// true with probability num/den
    pub fn chance(&mut self, num: u64, den: u64) -> bool {
        self.below(den) < num
    }

    /// true with probability p (0..=1), p given in per-mille
    pub fn permille(&mut self, p: u32) -> bool {
        self.below(1000) < u64::from(p)
    }

    pub fn pick<'a, T>(&mut self, xs: &'a [T]) -> &'a T {
        &xs[self.usize_below(xs.len())]
    }

    pub fn byte(&mut self) -> u8 {
        (self.next_u64() >> 56) as u8
    }

    pub fn bytes(&mut self, n: usize) -> Vec<u8> {
        let mut v = Vec::with_capacity(n);
        while v.len() < n {
            let x = self.next_u64().to_le_bytes();
            let take = (n - v.len()).min(8);
            v.extend_from_slice(&x[..take]);
        }
        v
    }

    pub fn fork(&mut self) -> Rng {
        Rng::new(self.next_u64())
    }
}

/// FNV-1a 64 over bytes; used for digests (never for decisions that need quality).
#[derive(Clone, Copy)]
pub struct Digest(pub u64);

impl Default for Digest {
    fn default() -> Self {
        Digest(0xcbf2_9ce4_8422_2325)
    }
}

impl Digest {
    pub fn bytes(&mut self, b: &[u8]) {
        for x in b {
            self.0 = (self.0 ^ u64::from(*x)).wrapping_mul(0x0000_0100_0000_01B3);
        }
    }
    pub fn u64(&mut self, v: u64) {
        self.bytes(&v.to_le_bytes());
    }
    pub fn str(&mut self, s: &str) {
        self.bytes(s.as_bytes());
        self.bytes(&[0xff]);
    }
    pub fn finish(&self) -> u64 {
        let mut z = self.0;
        splitmix64(&mut z)
    }
}
