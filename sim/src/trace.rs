//! The delivered trace: the only thing the oracles look at, the thing the shrinker edits and
//! the content of a replay file. A trace is produced by the world (gen/) without ever
//! consulting the library, and executed by exec.rs against the real parsers.

use serde::{Deserialize, Serialize};

pub mod hex {
    use serde::{Deserialize, Deserializer, Serializer};
    pub fn enc(b: &[u8]) -> String {
        const H: &[u8; 16] = b"0123456789abcdef";
        let mut s = String::with_capacity(b.len() * 2);
        for x in b {
            s.push(H[(x >> 4) as usize] as char);
            s.push(H[(x & 15) as usize] as char);
        }
        s
    }
    pub fn dec(s: &str) -> Result<Vec<u8>, String> {
        let b = s.as_bytes();
        if b.len() % 2 != 0 {
            return Err("odd hex length".into());
        }
        let v = |c: u8| -> Result<u8, String> {
            match c {
                b'0'..=b'9' => Ok(c - b'0'),
                b'a'..=b'f' => Ok(c - b'a' + 10),
                b'A'..=b'F' => Ok(c - b'A' + 10),
                _ => Err("bad hex digit".into()),
            }
        };
        let mut out = Vec::with_capacity(b.len() / 2);
        for p in b.chunks(2) {
            out.push(v(p[0])? << 4 | v(p[1])?);
        }
        Ok(out)
    }
    pub fn serialize<S: Serializer>(b: &Vec<u8>, s: S) -> Result<S::Ok, S::Error> {
        s.serialize_str(&enc(b))
    }
    pub fn deserialize<'de, D: Deserializer<'de>>(d: D) -> Result<Vec<u8>, D::Error> {
        let s = String::deserialize(d)?;
        dec(&s).map_err(serde::de::Error::custom)
    }
}

/// Configuration of one collector-side parser instance (one per source, as the examples do).
#[derive(Clone, Debug, Serialize, Deserialize, PartialEq)]
pub struct ParserCfg {
    /// allowed_versions of this instance
    pub allowed: Vec<u16>,
    /// key given to the library's hashed collections (hook `netflow_parser_verif`)
    pub hash_seed: u64,
}

impl Default for ParserCfg {
    fn default() -> Self {
        ParserCfg { allowed: vec![5, 7, 9, 10], hash_seed: 1 }
    }
}

#[derive(Clone, Debug, Serialize, Deserialize, PartialEq)]
#[serde(tag = "kind")]
pub enum Ev {
    /// One `parse_bytes` call on parser `p`. The delivered buffer is `buf[..cut]` when `cut`
    /// is set (datagram truncated by the transport) and `buf` otherwise. `parts` are the
    /// lengths of the export packets the sender put into `buf` (empty when unknown, e.g.
    /// garbage); they are only a hint for metamorphic checks, which re-verify them.
    Deliver {
        t: u64,
        p: usize,
        #[serde(with = "hex")]
        buf: Vec<u8>,
        #[serde(default, skip_serializing_if = "Vec::is_empty")]
        parts: Vec<usize>,
        #[serde(default, skip_serializing_if = "Option::is_none")]
        cut: Option<usize>,
        #[serde(default, skip_serializing_if = "Vec::is_empty")]
        faults: Vec<String>,
    },
    /// Collector crash + restart: every parser instance is replaced by a fresh one (nothing
    /// in this library is durable).
    Restart { t: u64 },
    /// The operator changes parser `p`'s `allowed_versions` (a public field) at run time; the
    /// caches keep what was learned under the previous setting.
    Reconfigure { t: u64, p: usize, allowed: Vec<u16> },
    /// The operator drops what parser `p` has learned for one or both protocols by assigning
    /// a default sub-parser to the public field (`parser.v9_parser = V9Parser::default()`).
    ResetCaches { t: u64, p: usize, v9: bool, ipfix: bool },
}

impl Ev {
    pub fn delivered(&self) -> Option<&[u8]> {
        match self {
            Ev::Deliver { buf, cut, .. } => Some(match cut {
                Some(k) => &buf[..(*k).min(buf.len())],
                None => &buf[..],
            }),
            _ => None,
        }
    }
}

#[derive(Clone, Debug, Serialize, Deserialize, PartialEq)]
pub struct Trace {
    pub prop: String,
    pub run_seed: u64,
    /// free text: the swarm configuration this world was drawn with
    #[serde(default)]
    pub swarm: String,
    pub parsers: Vec<ParserCfg>,
    pub events: Vec<Ev>,
    /// simulated nanoseconds covered by the world that produced this trace
    #[serde(default)]
    pub sim_ns: u64,
}

#[derive(Clone, Debug, Serialize, Deserialize)]
pub struct Violation {
    pub property: String,
    /// stable short code naming the oracle clause that failed
    pub code: String,
    /// index into trace.events
    pub event: usize,
    pub message: String,
}

#[derive(Clone, Debug, Serialize, Deserialize)]
pub struct ReplayFile {
    pub property: String,
    pub verif_seed: u64,
    pub features: String,
    pub violation: Violation,
    pub trace: Trace,
    #[serde(default)]
    pub original_events: usize,
}
