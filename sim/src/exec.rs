//! Executes a trace against the REAL parsers (library built from /repo's working tree) and
//! evaluates the oracles of one property after every delivery.

use crate::checks;
use crate::model::*;
use crate::trace::{Ev, ParserCfg, Trace};
use netflow_parser::variable_versions::{ipfix, v9};
use netflow_parser::{NetflowPacket, NetflowParser};
use std::collections::{BTreeMap, BTreeSet};
use std::panic::{catch_unwind, AssertUnwindSafe};

#[derive(Clone, Debug, serde::Serialize, serde::Deserialize)]
pub struct Finding {
    /// stable code of the oracle clause (or `KF-...` when the observed output is exactly the
    /// predicted form of a listed known defect)
    pub code: String,
    pub event: usize,
    pub message: String,
}

#[derive(Default, Debug, Clone, serde::Serialize, serde::Deserialize)]
pub struct RunStats {
    pub deliveries: u64,
    pub bytes: u64,
    pub restarts: u64,
    pub packets_returned: u64,
    pub errors_returned: u64,
    pub conformant_deliveries: u64,
    pub oracle_evals: u64,
    pub panics: u64,
    pub probes: BTreeMap<String, u64>,
    /// maxima (aggregated by max, not by sum)
    #[serde(default)]
    pub maxes: BTreeMap<String, u64>,
    pub states: BTreeSet<u64>,
    pub trigrams: BTreeSet<u64>,
    pub nontrivial: bool,
    pub digest: u64,
    pub sim_ns: u64,
}

impl RunStats {
    pub fn probe(&mut self, k: &str) {
        *self.probes.entry(k.to_string()).or_insert(0) += 1;
    }
    pub fn max(&mut self, k: &str, v: u64) {
        let e = self.maxes.entry(k.to_string()).or_insert(0);
        if v > *e {
            *e = v;
        }
    }
    pub fn probe_n(&mut self, k: &str, n: u64) {
        *self.probes.entry(k.to_string()).or_insert(0) += n;
    }
}

pub type CacheSnap = BTreeMap<(Proto, bool, u16), TDef>;

pub fn make_parser(cfg: &ParserCfg) -> NetflowParser {
    netflow_parser::verif_hooks::set_hash_seed(cfg.hash_seed);
    let mut p = NetflowParser::default();
    p.allowed_versions = cfg.allowed.iter().cloned().collect();
    p
}

/// A fork: fresh parser that receives a copy of the primary's public state.
pub fn fork(p: &NetflowParser) -> NetflowParser {
    let mut f = NetflowParser::default();
    f.v9_parser.templates = p.v9_parser.templates.clone();
    f.v9_parser.options_templates = p.v9_parser.options_templates.clone();
    f.ipfix_parser.templates = p.ipfix_parser.templates.clone();
    f.ipfix_parser.options_templates = p.ipfix_parser.options_templates.clone();
    f.allowed_versions = p.allowed_versions.clone();
    f
}

pub fn fork_allowing(p: &NetflowParser, allowed: &[u16]) -> NetflowParser {
    let mut f = fork(p);
    f.allowed_versions = allowed.iter().cloned().collect();
    f
}

fn v9_fields(fs: &[v9::TemplateField]) -> Vec<FSpec> {
    fs.iter().map(|f| FSpec { typ: f.field_type_number, len: f.field_length, ent: None }).collect()
}
fn ip_fields(fs: &[ipfix::TemplateField]) -> Vec<FSpec> {
    fs.iter()
        .map(|f| FSpec { typ: f.field_type_number, len: f.field_length, ent: f.enterprise_number })
        .collect()
}

pub fn def_v9_tpl(t: &v9::Template) -> TDef {
    TDef::Tpl { field_count: t.field_count, fields: v9_fields(&t.fields) }
}
pub fn def_v9_opt(t: &v9::OptionsTemplate) -> TDef {
    TDef::V9Opt {
        scope_len: t.options_scope_length,
        opt_len: t.options_length,
        scope: t.scope_fields.iter().map(|f| FSpec { typ: f.field_type_number, len: f.field_length, ent: None }).collect(),
        opts: v9_fields(&t.option_fields),
    }
}
pub fn def_ip_tpl(t: &ipfix::Template) -> TDef {
    TDef::Tpl { field_count: t.field_count, fields: ip_fields(&t.fields) }
}
pub fn def_ip_opt(t: &ipfix::OptionsTemplate) -> TDef {
    TDef::IpOpt { field_count: t.field_count, scope_count: t.scope_field_count, fields: ip_fields(&t.fields) }
}

pub fn snap(p: &NetflowParser) -> CacheSnap {
    let mut s = CacheSnap::new();
    for (id, t) in &p.v9_parser.templates {
        s.insert((Proto::V9, false, *id), TDef::Tpl { field_count: t.field_count, fields: v9_fields(&t.fields) });
    }
    for (id, t) in &p.v9_parser.options_templates {
        s.insert(
            (Proto::V9, true, *id),
            TDef::V9Opt {
                scope_len: t.options_scope_length,
                opt_len: t.options_length,
                scope: t
                    .scope_fields
                    .iter()
                    .map(|f| FSpec { typ: f.field_type_number, len: f.field_length, ent: None })
                    .collect(),
                opts: v9_fields(&t.option_fields),
            },
        );
    }
    for (id, t) in &p.ipfix_parser.templates {
        s.insert((Proto::Ipfix, false, *id), TDef::Tpl { field_count: t.field_count, fields: ip_fields(&t.fields) });
    }
    for (id, t) in &p.ipfix_parser.options_templates {
        s.insert(
            (Proto::Ipfix, true, *id),
            TDef::IpOpt { field_count: t.field_count, scope_count: t.scope_field_count, fields: ip_fields(&t.fields) },
        );
    }
    s
}

pub fn model_snap(m: &MCache) -> CacheSnap {
    let mut s = CacheSnap::new();
    for (id, d) in &m.v9 {
        s.insert((Proto::V9, d.is_options(), *id), d.clone());
    }
    for (id, d) in &m.ipfix {
        s.insert((Proto::Ipfix, d.is_options(), *id), d.clone());
    }
    s
}

/// Rebuild the model cache from what the real parser holds (used after deliveries on which
/// the properties do not pin the cache effect exactly). Ids present in both maps of one
/// protocol are ambiguous and become tainted.
pub fn resync(m: &mut MCache, real: &CacheSnap) {
    let tainted_before = m.tainted.clone();
    m.v9.clear();
    m.ipfix.clear();
    for ((proto, _opt, id), def) in real {
        let both = real.contains_key(&(*proto, true, *id)) && real.contains_key(&(*proto, false, *id));
        if both {
            m.tainted.insert((*proto, *id));
        }
        m.map_mut(*proto).insert(*id, def.clone());
    }
    // a definition that does not describe decodable records cannot be checked against
    for ((proto, _opt, id), def) in real {
        let min: usize = def.all_fields().iter().map(|f| if f.len == 65535 { 1 } else { usize::from(f.len) }).sum();
        if min == 0 {
            m.tainted.insert((*proto, *id));
        }
    }
    for t in tainted_before {
        if m.map(t.0).contains_key(&t.1) {
            m.tainted.insert(t);
        }
    }
}

pub fn version_of(p: &NetflowPacket) -> Option<u16> {
    match p {
        NetflowPacket::V5(x) => Some(x.header.version),
        NetflowPacket::V7(x) => Some(x.header.version),
        NetflowPacket::V9(x) => Some(x.header.version),
        NetflowPacket::IPFix(x) => Some(x.header.version),
        NetflowPacket::Error(_) => None,
        #[allow(unreachable_patterns)]
        _ => None,
    }
}

/// Wire length of a returned packet as implied by its own header (C02).
pub fn wire_len(p: &NetflowPacket) -> Option<usize> {
    match p {
        NetflowPacket::V5(x) => Some(24 + 48 * usize::from(x.header.count)),
        NetflowPacket::V7(x) => Some(24 + 52 * usize::from(x.header.count)),
        NetflowPacket::V9(x) => {
            Some(20 + x.flowsets.iter().map(|f| usize::from(f.header.length).max(4)).sum::<usize>())
        }
        NetflowPacket::IPFix(x) => Some(usize::from(x.header.length).max(16)),
        NetflowPacket::Error(_) => None,
        // an element kind with no wire length of its own: the result is not a decomposition (C02)
        #[allow(unreachable_patterns)]
        _ => None,
    }
}

/// Start offsets of the returned elements in `buf` (None if they do not decompose it).
pub fn offsets(buf: &[u8], r: &[NetflowPacket]) -> Option<Vec<usize>> {
    let mut pos = 0usize;
    let mut out = Vec::new();
    for el in r {
        out.push(pos);
        match wire_len(el) {
            Some(l) => pos += l,
            None => {
                pos = buf.len();
            }
        }
        if pos > buf.len() {
            return None;
        }
    }
    Some(out)
}

pub fn dbg(p: &NetflowPacket) -> String {
    format!("{:?}", p)
}

pub struct Sim {
    pub cfgs: Vec<ParserCfg>,
    pub parsers: Vec<NetflowParser>,
    pub twins: Vec<NetflowParser>,
    pub models: Vec<MCache>,
    /// every definition seen anywhere in this run: (parser, proto, id) -> history
    pub history: BTreeMap<(usize, Proto, u16), Vec<TDef>>,
    /// bytes delivered to each parser since its last restart
    pub fed: Vec<Vec<Vec<u8>>>,
    pub mcfg: ModelCfg,
    pub stats: RunStats,
    pub findings: Vec<Finding>,
    pub last_outcome: Vec<u8>,
    /// C15: (family, size index, net bytes allocated, allocation calls, event)
    pub scale_obs: Vec<(String, usize, u64, u64, usize)>,
}

pub struct Delivery<'a> {
    pub ev: usize,
    pub p: usize,
    /// bytes actually delivered
    pub buf: &'a [u8],
    /// intact buffer the sender produced (== buf unless truncated)
    pub full: &'a [u8],
    pub parts: &'a [usize],
    pub cut: Option<usize>,
    pub faults: &'a [String],
}

pub const UNKNOWN_FIELDS_ON: bool = cfg!(feature = "parse_unknown_fields");

impl Sim {
    pub fn new(trace: &Trace, twins: bool) -> Sim {
        let parsers: Vec<NetflowParser> = trace.parsers.iter().map(make_parser).collect();
        let tw = if twins {
            trace
                .parsers
                .iter()
                .map(|c| {
                    let mut c2 = c.clone();
                    c2.hash_seed = c.hash_seed.wrapping_mul(0x9E37_79B9_7F4A_7C15) ^ 0xdead_beef;
                    // same set, different insertion order
                    c2.allowed.reverse();
                    make_parser(&c2)
                })
                .collect()
        } else {
            vec![]
        };
        Sim {
            cfgs: trace.parsers.clone(),
            models: trace.parsers.iter().map(|_| MCache::default()).collect(),
            fed: trace.parsers.iter().map(|_| Vec::new()).collect(),
            parsers,
            twins: tw,
            history: BTreeMap::new(),
            mcfg: ModelCfg { unknown_fields_on: UNKNOWN_FIELDS_ON },
            stats: RunStats::default(),
            findings: Vec::new(),
            last_outcome: Vec::new(),
            scale_obs: Vec::new(),
        }
    }

    pub fn find(&mut self, code: &str, ev: usize, msg: String) {
        if self.findings.len() < 64 {
            self.findings.push(Finding { code: code.to_string(), event: ev, message: msg });
        }
    }

    /// `allowed_versions` is a public field: set it on the live parser (and its twin), state kept.
    fn reconfigure(&mut self, p: usize, allowed: &[u16]) {
        self.cfgs[p].allowed = allowed.to_vec();
        netflow_parser::verif_hooks::set_hash_seed(self.cfgs[p].hash_seed);
        self.parsers[p].allowed_versions = allowed.iter().cloned().collect();
        if p < self.twins.len() {
            self.twins[p].allowed_versions = allowed.iter().rev().cloned().collect();
        }
        self.stats.probe("allowed_versions_changed_at_run_time");
    }

    /// The sub-parsers are public fields with a public `Default`: assigning a fresh one is how a
    /// caller forgets the templates of one protocol.
    fn reset_caches(&mut self, p: usize, v9: bool, ipfix: bool) {
        use netflow_parser::variable_versions::{ipfix::IPFixParser, v9::V9Parser};
        netflow_parser::verif_hooks::set_hash_seed(self.cfgs[p].hash_seed.rotate_left(7) ^ self.stats.deliveries);
        if v9 {
            self.parsers[p].v9_parser = V9Parser::default();
            if p < self.twins.len() {
                self.twins[p].v9_parser = V9Parser::default();
            }
            self.models[p].v9.clear();
            self.models[p].tainted.retain(|t| t.0 != Proto::V9);
        }
        if ipfix {
            self.parsers[p].ipfix_parser = IPFixParser::default();
            if p < self.twins.len() {
                self.twins[p].ipfix_parser = IPFixParser::default();
            }
            self.models[p].ipfix.clear();
            self.models[p].tainted.retain(|t| t.0 != Proto::Ipfix);
        }
        self.stats.probe("caches_reset_at_run_time");
    }

    fn restart(&mut self) {
        for i in 0..self.parsers.len() {
            self.parsers[i] = make_parser(&self.cfgs[i]);
            self.models[i] = MCache::default();
            self.fed[i].clear();
        }
        if !self.twins.is_empty() {
            for i in 0..self.twins.len() {
                let mut c2 = self.cfgs[i].clone();
                c2.hash_seed = c2.hash_seed.wrapping_mul(0x9E37_79B9_7F4A_7C15) ^ 0xdead_beef;
                c2.allowed.reverse();
                self.twins[i] = make_parser(&c2);
            }
        }
        self.stats.restarts += 1;
    }
}

/// Result of calling the library once, panics contained.
pub enum Called {
    Ok(Vec<NetflowPacket>),
    Panic(String),
}

pub fn call(p: &mut NetflowParser, buf: &[u8]) -> Called {
    match catch_unwind(AssertUnwindSafe(|| p.parse_bytes(buf))) {
        Ok(r) => Called::Ok(r),
        Err(e) => {
            let msg = if let Some(s) = e.downcast_ref::<&str>() {
                s.to_string()
            } else if let Some(s) = e.downcast_ref::<String>() {
                s.clone()
            } else {
                "panic".to_string()
            };
            Called::Panic(msg)
        }
    }
}

pub struct Outcome {
    pub findings: Vec<Finding>,
    pub stats: RunStats,
}

/// Hook called before each delivery when running in trace mode (journal flush).
pub type Heartbeat<'a> = &'a mut dyn FnMut(usize);

pub fn run_trace(trace: &Trace, prop: &str, mut heartbeat: Option<Heartbeat>) -> Outcome {
    let mut sim = Sim::new(trace, prop == "C16");
    let mut dg = crate::rng::Digest::default();
    let mut prev2: (u64, u64) = (0, 0);
    for (i, ev) in trace.events.iter().enumerate() {
        if let Some(h) = heartbeat.as_mut() {
            h(i);
        }
        match ev {
            Ev::Restart { .. } => {
                sim.restart();
                dg.str("restart");
                let tg = 7u64;
                sim.stats.trigrams.insert(prev2.0 * 1_000_003 + prev2.1 * 1009 + tg);
                prev2 = (prev2.1, tg);
            }
            Ev::ResetCaches { p, v9, ipfix, .. } => {
                if *p >= sim.parsers.len() {
                    continue;
                }
                sim.reset_caches(*p, *v9, *ipfix);
                dg.str("reset-caches");
                let tg = 5u64;
                sim.stats.trigrams.insert(prev2.0 * 1_000_003 + prev2.1 * 1009 + tg);
                prev2 = (prev2.1, tg);
            }
            Ev::Reconfigure { p, allowed, .. } => {
                if *p >= sim.parsers.len() {
                    continue;
                }
                sim.reconfigure(*p, allowed);
                dg.str("reconfigure");
                let tg = 6u64;
                sim.stats.trigrams.insert(prev2.0 * 1_000_003 + prev2.1 * 1009 + tg);
                prev2 = (prev2.1, tg);
            }
            Ev::Deliver { p, buf, parts, cut, faults, .. } => {
                if *p >= sim.parsers.len() {
                    continue;
                }
                let delivered: &[u8] = match cut {
                    Some(k) => &buf[..(*k).min(buf.len())],
                    None => &buf[..],
                };
                let d = Delivery { ev: i, p: *p, buf: delivered, full: buf, parts, cut: *cut, faults };
                sim.stats.deliveries += 1;
                sim.stats.bytes += delivered.len() as u64;
                let before = sim.findings.len();
                let class = checks::deliver(&mut sim, prop, &d);
                dg.bytes(delivered);
                dg.bytes(&sim.last_outcome);
                dg.u64(sim.findings.len() as u64);
                let st = sim.models[*p].state_digest();
                sim.stats.states.insert(st);
                let tg = class;
                sim.stats.trigrams.insert(prev2.0 * 1_000_003 + prev2.1 * 1009 + tg);
                prev2 = (prev2.1, tg);
                if sim.findings[before..].iter().any(|f| !f.code.starts_with("KF-")) && prop != "C15" {
                    // one violation per run is enough; later state may be inconsistent
                    break;
                }
            }
        }
    }
    checks::finish(&mut sim, prop, trace);
    sim.stats.digest = dg.finish();
    sim.stats.sim_ns = trace.sim_ns;
    Outcome { findings: sim.findings, stats: sim.stats }
}
