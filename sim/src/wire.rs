//! Byte-exact builders for export packets (exporter-stub side). Kept free of any decision:
//! callers pass everything in.

use crate::model::{FSpec, TDef};

pub fn be16(v: &mut Vec<u8>, x: u16) {
    v.extend_from_slice(&x.to_be_bytes());
}
pub fn be32(v: &mut Vec<u8>, x: u32) {
    v.extend_from_slice(&x.to_be_bytes());
}

pub fn v5(count: u16, hdr: &[u8; 20], records: &[u8]) -> Vec<u8> {
    let mut v = vec![0, 5];
    be16(&mut v, count);
    v.extend_from_slice(hdr);
    v.extend_from_slice(records);
    v
}

pub fn v7(count: u16, hdr: &[u8; 20], records: &[u8]) -> Vec<u8> {
    let mut v = vec![0, 7];
    be16(&mut v, count);
    v.extend_from_slice(hdr);
    v.extend_from_slice(records);
    v
}

pub fn v9_packet(count: u16, uptime: u32, secs: u32, seq: u32, source: u32, flowsets: &[Vec<u8>]) -> Vec<u8> {
    let mut v = vec![0, 9];
    be16(&mut v, count);
    be32(&mut v, uptime);
    be32(&mut v, secs);
    be32(&mut v, seq);
    be32(&mut v, source);
    for f in flowsets {
        v.extend_from_slice(f);
    }
    v
}

pub fn ipfix_packet(export_time: u32, seq: u32, domain: u32, sets: &[Vec<u8>]) -> Vec<u8> {
    let total: usize = 16 + sets.iter().map(|s| s.len()).sum::<usize>();
    let mut v = vec![0, 10];
    be16(&mut v, total as u16);
    be32(&mut v, export_time);
    be32(&mut v, seq);
    be32(&mut v, domain);
    for s in sets {
        v.extend_from_slice(s);
    }
    v
}

/// A set / flowset: id, length (header included), body, `pad` zero bytes.
pub fn set(id: u16, body: &[u8], pad: usize) -> Vec<u8> {
    let mut v = Vec::with_capacity(4 + body.len() + pad);
    be16(&mut v, id);
    be16(&mut v, (4 + body.len() + pad) as u16);
    v.extend_from_slice(body);
    v.extend(std::iter::repeat(0u8).take(pad));
    v
}

fn spec(v: &mut Vec<u8>, f: &FSpec) {
    match f.ent {
        Some(e) => {
            be16(v, f.typ | 0x8000);
            be16(v, f.len);
            be32(v, e);
        }
        None => {
            be16(v, f.typ);
            be16(v, f.len);
        }
    }
}

/// One template record as it goes on the wire (V9 or IPFIX flavour follows from the def).
pub fn template_record(id: u16, def: &TDef) -> Vec<u8> {
    let mut v = Vec::new();
    be16(&mut v, id);
    match def {
        TDef::Tpl { field_count, fields } => {
            be16(&mut v, *field_count);
            for f in fields {
                spec(&mut v, f);
            }
        }
        TDef::V9Opt { scope_len, opt_len, scope, opts } => {
            be16(&mut v, *scope_len);
            be16(&mut v, *opt_len);
            for f in scope.iter().chain(opts.iter()) {
                spec(&mut v, f);
            }
        }
        TDef::IpOpt { field_count, scope_count, fields } => {
            be16(&mut v, *field_count);
            be16(&mut v, *scope_count);
            for f in fields {
                spec(&mut v, f);
            }
        }
    }
    v
}
