//! Heap seam: a counting global allocator. Counters are thread-local so that parallel
//! simulation threads do not disturb each other. An optional per-thread budget makes the
//! allocator refuse (=> abort of the worker, which the orchestrator reports as a finding)
//! so that a runaway change cannot take the machine down.

use std::alloc::{GlobalAlloc, Layout, System};
use std::cell::Cell;

pub struct Counting;

thread_local! {
    static BYTES: Cell<u64> = const { Cell::new(0) };
    static CALLS: Cell<u64> = const { Cell::new(0) };
    static LIVE: Cell<i64> = const { Cell::new(0) };
    static PEAK: Cell<i64> = const { Cell::new(0) };
    static LARGEST: Cell<u64> = const { Cell::new(0) };
    static BUDGET: Cell<u64> = const { Cell::new(u64::MAX) };
    static ON: Cell<bool> = const { Cell::new(false) };
}

#[derive(Clone, Copy, Debug, Default)]
pub struct Snapshot {
    pub bytes: u64,
    pub calls: u64,
    pub live: i64,
    pub peak: i64,
    pub largest: u64,
}

pub fn start(budget: u64) {
    BYTES.with(|c| c.set(0));
    CALLS.with(|c| c.set(0));
    LARGEST.with(|c| c.set(0));
    LIVE.with(|c| c.set(0));
    PEAK.with(|c| c.set(0));
    BUDGET.with(|c| c.set(budget));
    ON.with(|c| c.set(true));
}

pub fn stop() -> Snapshot {
    ON.with(|c| c.set(false));
    BUDGET.with(|c| c.set(u64::MAX));
    Snapshot {
        bytes: BYTES.with(|c| c.get()),
        calls: CALLS.with(|c| c.get()),
        live: LIVE.with(|c| c.get()),
        peak: PEAK.with(|c| c.get()),
        largest: LARGEST.with(|c| c.get()),
    }
}

#[inline]
fn on_alloc(size: usize) -> bool {
    let on = ON.try_with(|c| c.get()).unwrap_or(false);
    if !on {
        return true;
    }
    let b = BYTES.with(|c| {
        let v = c.get() + size as u64;
        c.set(v);
        v
    });
    CALLS.with(|c| c.set(c.get() + 1));
    LARGEST.with(|c| {
        if size as u64 > c.get() {
            c.set(size as u64)
        }
    });
    let l = LIVE.with(|c| {
        let v = c.get() + size as i64;
        c.set(v);
        v
    });
    PEAK.with(|c| {
        if l > c.get() {
            c.set(l)
        }
    });
    b <= BUDGET.with(|c| c.get())
}

#[inline]
fn on_free(size: usize) {
    let on = ON.try_with(|c| c.get()).unwrap_or(false);
    if on {
        LIVE.with(|c| c.set(c.get() - size as i64));
    }
}

unsafe impl GlobalAlloc for Counting {
    unsafe fn alloc(&self, layout: Layout) -> *mut u8 {
        if !on_alloc(layout.size()) {
            return std::ptr::null_mut();
        }
        System.alloc(layout)
    }
    unsafe fn dealloc(&self, ptr: *mut u8, layout: Layout) {
        on_free(layout.size());
        System.dealloc(ptr, layout)
    }
    unsafe fn realloc(&self, ptr: *mut u8, layout: Layout, new_size: usize) -> *mut u8 {
        // count growth as a fresh allocation of the new size (that is what it costs in the
        // worst case, and it is what a doubling Vec is charged in the amortised analysis)
        if new_size > layout.size() {
            if !on_alloc(new_size) {
                return std::ptr::null_mut();
            }
            on_free(layout.size());
        } else {
            on_free(layout.size() - new_size);
        }
        System.realloc(ptr, layout, new_size)
    }
}
