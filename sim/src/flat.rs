//! Flattening of the library's decoded structures (through their pub fields) and of the
//! model's decode into one comparable form.

use crate::model::*;
use netflow_parser::protocol::ProtocolTypes;
use netflow_parser::variable_versions::data_number::{DataNumber, FieldValue};
use netflow_parser::variable_versions::{ipfix, v9};

#[derive(PartialEq, Debug, Clone)]
pub struct FTplField {
    pub typ: u16,
    pub len: u16,
    pub ent: Option<u32>,
    pub name: String,
}

pub type FVal = (usize, String, FV);

#[derive(PartialEq, Debug, Clone)]
pub enum FSet {
    V9Tpls { tpls: Vec<(u16, u16, Vec<FTplField>)>, pad: Vec<u8> },
    V9OTpls { tpls: Vec<(u16, u16, u16, Vec<(u16, u16)>, Vec<FTplField>)>, pad: Vec<u8> },
    V9Data { recs: Vec<Vec<FVal>>, pad: Vec<u8> },
    V9OData { scope: Vec<(u16, Vec<u8>)>, opts: Vec<(String, Vec<u8>)>, pad: Vec<u8> },
    IpTpl { id: u16, field_count: u16, fields: Vec<FTplField>, pad: Vec<u8> },
    IpOTpl { id: u16, field_count: u16, scope_count: u16, fields: Vec<FTplField>, pad: Vec<u8> },
    IpData { vals: Vec<FVal>, pad: Vec<u8> },
    IpOData { vals: Vec<FVal>, pad: Vec<u8> },
    /// a variant of the library's set enum that did not exist when this was written
    Other(String),
}

#[derive(PartialEq, Debug, Clone)]
pub struct FPkt {
    pub version: u16,
    pub hdr: Vec<u32>,
    pub sets: Vec<(u16, u16, FSet)>,
}

pub fn fv_of(v: &FieldValue) -> FV {
    match v {
        FieldValue::String(s) => FV::Str(s.clone()),
        FieldValue::DataNumber(d) => match d {
            DataNumber::U8(x) => FV::U8(*x),
            DataNumber::U16(x) => FV::U16(*x),
            DataNumber::U24(x) => FV::U24(*x),
            DataNumber::I24(x) => FV::I24(*x),
            DataNumber::U32(x) => FV::U32(*x),
            DataNumber::U64(x) => FV::U64(*x),
            DataNumber::U128(x) => FV::U128(*x),
            DataNumber::I32(x) => FV::I32(*x),
            #[allow(unreachable_patterns)]
            other => FV::Other(format!("{:?}", other)),
        },
        FieldValue::Float64(f) => FV::F64(f.to_bits()),
        FieldValue::Duration(d) => FV::Dur(d.as_secs(), d.subsec_nanos()),
        FieldValue::Ip4Addr(a) => FV::Ip4(a.octets()),
        FieldValue::Ip6Addr(a) => FV::Ip6(a.octets()),
        FieldValue::MacAddr(m) => FV::Mac(m.clone()),
        FieldValue::Vec(v) => FV::Vec(v.clone()),
        FieldValue::ProtocolType(p) => FV::Proto(proto_number(*p)),
        FieldValue::Unknown(v) => FV::Unknown(v.clone()),
        // a value kind this simulator was not written for: equal to nothing the model predicts
        #[allow(unreachable_patterns)]
        other => FV::Other(format!("{:?}", other)),
    }
}

/// The number of a decoded protocol value: its enum discriminant (what the wire byte
/// selected).
pub fn proto_number(p: ProtocolTypes) -> u8 {
    p as u8
}

pub fn flat_v9(p: &v9::V9) -> FPkt {
    let h = &p.header;
    let mut sets = Vec::new();
    for fs in &p.flowsets {
        let s = match &fs.body {
            v9::FlowSetBody::Template(t) => FSet::V9Tpls {
                tpls: t
                    .templates
                    .iter()
                    .map(|t| {
                        (
                            t.template_id,
                            t.field_count,
                            t.fields
                                .iter()
                                .map(|f| FTplField {
                                    typ: f.field_type_number,
                                    len: f.field_length,
                                    ent: None,
                                    name: format!("{:?}", f.field_type),
                                })
                                .collect(),
                        )
                    })
                    .collect(),
                pad: t.padding.clone(),
            },
            v9::FlowSetBody::OptionsTemplate(t) => FSet::V9OTpls {
                tpls: t
                    .templates
                    .iter()
                    .map(|t| {
                        (
                            t.template_id,
                            t.options_scope_length,
                            t.options_length,
                            t.scope_fields.iter().map(|f| (f.field_type_number, f.field_length)).collect(),
                            t.option_fields
                                .iter()
                                .map(|f| FTplField {
                                    typ: f.field_type_number,
                                    len: f.field_length,
                                    ent: None,
                                    name: format!("{:?}", f.field_type),
                                })
                                .collect(),
                        )
                    })
                    .collect(),
                pad: t.padding.clone(),
            },
            v9::FlowSetBody::Data(d) => FSet::V9Data {
                recs: d
                    .fields
                    .iter()
                    .map(|r| r.iter().map(|(k, (ft, v))| (*k, format!("{:?}", ft), fv_of(v))).collect())
                    .collect(),
                pad: d.padding.clone(),
            },
            v9::FlowSetBody::OptionsData(d) => FSet::V9OData {
                scope: d
                    .scope_fields
                    .iter()
                    .map(|s| match s {
                        v9::ScopeDataField::System(b) => (1, b.clone()),
                        v9::ScopeDataField::Interface(b) => (2, b.clone()),
                        v9::ScopeDataField::LineCard(b) => (3, b.clone()),
                        v9::ScopeDataField::NetFlowCache(b) => (4, b.clone()),
                        v9::ScopeDataField::Template(b) => (5, b.clone()),
                        #[allow(unreachable_patterns)]
                        other => (0xffff, format!("{:?}", other).into_bytes()),
                    })
                    .collect(),
                opts: d
                    .options_fields
                    .iter()
                    .map(|o| (format!("{:?}", o.field_type), o.field_value.clone()))
                    .collect(),
                pad: d.padding.clone(),
            },
            // a set kind this simulator was not written for: equal to nothing the model predicts
            #[allow(unreachable_patterns)]
            other => FSet::Other(format!("{:?}", other)),
        };
        sets.push((fs.header.flowset_id, fs.header.length, s));
    }
    FPkt {
        version: h.version,
        hdr: vec![u32::from(h.count), h.sys_up_time, h.unix_secs, h.sequence_number, h.source_id],
        sets,
    }
}

fn ip_fields(fs: &[ipfix::TemplateField]) -> Vec<FTplField> {
    fs.iter()
        .map(|f| FTplField {
            typ: f.field_type_number,
            len: f.field_length,
            ent: f.enterprise_number,
            name: format!("{:?}", f.field_type),
        })
        .collect()
}

fn ip_vals(
    fields: &[std::collections::BTreeMap<usize, (netflow_parser::variable_versions::ipfix_lookup::IPFixField, FieldValue)>],
) -> Vec<FVal> {
    fields
        .iter()
        .flat_map(|m| m.iter().map(|(k, (ft, v))| (*k, format!("{:?}", ft), fv_of(v))))
        .collect()
}

pub fn flat_ipfix(p: &ipfix::IPFix) -> FPkt {
    let h = &p.header;
    let mut sets = Vec::new();
    for fs in &p.flowsets {
        let s = match &fs.body {
            ipfix::FlowSetBody::Template(t) => FSet::IpTpl {
                id: t.template_id,
                field_count: t.field_count,
                fields: ip_fields(&t.fields),
                pad: t.padding.clone(),
            },
            ipfix::FlowSetBody::OptionsTemplate(t) => FSet::IpOTpl {
                id: t.template_id,
                field_count: t.field_count,
                scope_count: t.scope_field_count,
                fields: ip_fields(&t.fields),
                pad: t.padding.clone(),
            },
            ipfix::FlowSetBody::Data(d) => FSet::IpData { vals: ip_vals(&d.fields), pad: d.padding.clone() },
            ipfix::FlowSetBody::OptionsData(d) => {
                FSet::IpOData { vals: ip_vals(&d.fields), pad: d.padding.clone() }
            }
            // a set kind this simulator was not written for: equal to nothing the model predicts
            #[allow(unreachable_patterns)]
            other => FSet::Other(format!("{:?}", other)),
        };
        sets.push((fs.header.header_id, fs.header.length, s));
    }
    FPkt {
        version: h.version,
        hdr: vec![u32::from(h.length), h.export_time, h.sequence_number, h.observation_domain_id],
        sets,
    }
}

/// What the model expects for one set: the correct form (when the library's public shape can
/// express it) and, where a *listed known defect* predicts a specific wrong form, that form
/// with the finding's code.
#[derive(Debug, Clone)]
pub struct ExpSet {
    pub id: u16,
    pub len: u16,
    pub correct: Option<FSet>,
    pub defective: Vec<(String, FSet)>,
}

fn tplf(proto: Proto, f: &FSpec) -> FTplField {
    let name = if f.ent.is_some() {
        "Enterprise".to_string()
    } else {
        match proto {
            Proto::V9 => v9_name(f.typ),
            Proto::Ipfix => ipfix_name(f.typ),
        }
    };
    FTplField { typ: f.typ, len: f.len, ent: f.ent, name }
}

fn rec_vals(r: &MRec) -> Option<Vec<FVal>> {
    r.fields
        .iter()
        .map(|f| f.val.clone().ok().map(|v| (f.idx, f.name.clone(), v)))
        .collect()
}

/// Library's (lossy) rendering of a value the model calls Unrepresentable.
fn truncated_signed(raw: &[u8]) -> FV {
    let mut v: i128 = if raw[0] & 0x80 != 0 { -1 } else { 0 };
    for b in raw {
        v = (v << 8) | i128::from(*b);
    }
    FV::I32(v as i32)
}

pub fn expect_sets(buf: &[u8], pkt: &MPkt) -> Vec<ExpSet> {
    let (proto, sets) = match &pkt.body {
        MBody::V9 { sets, .. } => (Proto::V9, sets),
        MBody::Ipfix { sets, .. } => (Proto::Ipfix, sets),
        _ => return vec![],
    };
    let mut out = Vec::new();
    for s in sets {
        let body = &buf[s.off + 4..s.off + usize::from(s.len)];
        let mut e = ExpSet { id: s.id, len: s.len, correct: None, defective: vec![] };
        match (&s.kind, proto) {
            (MSetKind::Tpls { tpls, pad }, Proto::V9) => {
                if s.id == 0 {
                    e.correct = Some(FSet::V9Tpls {
                        tpls: tpls
                            .iter()
                            .map(|(id, d)| {
                                let TDef::Tpl { field_count, fields } = d else { unreachable!() };
                                (*id, *field_count, fields.iter().map(|f| tplf(proto, f)).collect())
                            })
                            .collect(),
                        pad: pad.clone(),
                    });
                } else {
                    e.correct = Some(FSet::V9OTpls {
                        tpls: tpls
                            .iter()
                            .map(|(id, d)| {
                                let TDef::V9Opt { scope_len, opt_len, scope, opts } = d else { unreachable!() };
                                (
                                    *id,
                                    *scope_len,
                                    *opt_len,
                                    scope.iter().map(|f| (f.typ, f.len)).collect(),
                                    opts.iter().map(|f| tplf(proto, f)).collect(),
                                )
                            })
                            .collect(),
                        pad: pad.clone(),
                    });
                }
            }
            (MSetKind::Tpls { tpls, pad }, Proto::Ipfix) => {
                let (id, d) = &tpls[0];
                if tpls.len() == 1 {
                    e.correct = Some(match d {
                        TDef::Tpl { field_count, fields } => FSet::IpTpl {
                            id: *id,
                            field_count: *field_count,
                            fields: fields.iter().map(|f| tplf(proto, f)).collect(),
                            pad: pad.clone(),
                        },
                        TDef::IpOpt { field_count, scope_count, fields } => FSet::IpOTpl {
                            id: *id,
                            field_count: *field_count,
                            scope_count: *scope_count,
                            fields: fields.iter().map(|f| tplf(proto, f)).collect(),
                            pad: pad.clone(),
                        },
                        _ => unreachable!(),
                    });
                } else {
                    // The library's public shape holds one template per set. Listed finding: the
                    // first record is reported, the further records stay verbatim in its padding
                    // (they are learned all the same).
                    match d {
                        TDef::Tpl { field_count, fields } => {
                            let first_len: usize = 4 + fields.iter().map(|f| if f.ent.is_some() { 8 } else { 4 }).sum::<usize>();
                            e.defective.push((
                                "KF-C05-multi-template-set".into(),
                                FSet::IpTpl {
                                    id: *id,
                                    field_count: *field_count,
                                    fields: fields.iter().map(|f| tplf(proto, f)).collect(),
                                    pad: body[first_len..].to_vec(),
                                },
                            ));
                        }
                        TDef::IpOpt { field_count, scope_count, fields } => {
                            let first_len: usize = 6 + fields.iter().map(|f| if f.ent.is_some() { 8 } else { 4 }).sum::<usize>();
                            e.defective.push((
                                "KF-C05-multi-template-set".into(),
                                FSet::IpOTpl {
                                    id: *id,
                                    field_count: *field_count,
                                    scope_count: *scope_count,
                                    fields: fields.iter().map(|f| tplf(proto, f)).collect(),
                                    pad: body[first_len..].to_vec(),
                                },
                            ));
                        }
                        _ => unreachable!(),
                    }
                }
            }
            (MSetKind::Data { recs, pad, def, .. }, Proto::V9) => {
                let all: Option<Vec<Vec<FVal>>> = recs.iter().map(rec_vals).collect();
                if let Some(a) = all {
                    e.correct = Some(FSet::V9Data { recs: a, pad: pad.clone() });
                }
                let _ = def;
            }
            (MSetKind::V9OData { recs, pad, .. }, _) => {
                let (sc, op) = &recs[0];
                let scope: Vec<(u16, Vec<u8>)> = sc.iter().map(|(f, b)| (f.typ, b.clone())).collect();
                let opts: Vec<(String, Vec<u8>)> = op.iter().map(|(f, b)| (v9_name(f.typ), b.clone())).collect();
                if recs.len() == 1 {
                    e.correct = Some(FSet::V9OData { scope, opts, pad: pad.clone() });
                } else {
                    let one: usize = sc.iter().chain(op.iter()).map(|(_, b)| b.len()).sum();
                    e.defective.push((
                        "KF-C04-options-data-multi-record".into(),
                        FSet::V9OData { scope, opts, pad: body[one..].to_vec() },
                    ));
                }
            }
            (MSetKind::Data { recs, pad, def, .. }, Proto::Ipfix) => {
                let mk = |vals: Vec<FVal>| {
                    if def.is_options() {
                        FSet::IpOData { vals, pad: pad.clone() }
                    } else {
                        FSet::IpData { vals, pad: pad.clone() }
                    }
                };
                let all: Option<Vec<Vec<FVal>>> = recs.iter().map(rec_vals).collect();
                if let Some(a) = all {
                    e.correct = Some(mk(a.into_iter().flatten().collect()));
                } else if recs.iter().all(|r| {
                    r.fields.iter().all(|f| f.val.is_ok() || matches!(f.val, Err(Why::Unrepresentable(_))))
                }) {
                    let vals: Vec<FVal> = recs
                        .iter()
                        .flat_map(|r| {
                            r.fields.iter().map(|f| {
                                (f.idx, f.name.clone(), f.val.clone().unwrap_or_else(|_| truncated_signed(&f.raw)))
                            })
                        })
                        .collect();
                    e.defective.push(("KF-C05-signed-wider-than-i32".into(), mk(vals)));
                }
            }
            (MSetKind::UnknownTpl { .. }, _) => {}
        }
        out.push(e);
    }
    out
}

pub fn expect_hdr(pkt: &MPkt) -> Vec<u32> {
    match &pkt.body {
        MBody::V9 { hdr, .. } => hdr.to_vec(),
        MBody::Ipfix { hdr, .. } => hdr.to_vec(),
        _ => vec![],
    }
}
