//! Minimisation of a failing trace. The shrinker edits the *trace* (never the generator) and
//! re-evaluates the same oracle, keeping (property, code) fixed.

use crate::exec;
use crate::trace::{Ev, ReplayFile, Trace};
use std::time::Instant;

struct Ctx {
    prop: String,
    code: String,
    subprocess: bool,
    evals: usize,
    start: Instant,
    tmp: String,
}

impl Ctx {
    fn over_budget(&self) -> bool {
        self.evals > 4000 || self.start.elapsed().as_secs() > if self.code.ends_with("-hang") { 60 } else { 120 }
    }

    /// Some(event index) if the candidate still shows the same finding code.
    fn fails(&mut self, t: &Trace) -> Option<usize> {
        self.evals += 1;
        if self.subprocess {
            let rf = ReplayFile {
                property: self.prop.clone(),
                verif_seed: 0,
                features: crate::features().into(),
                violation: crate::trace::Violation { property: self.prop.clone(), code: self.code.clone(), event: 0, message: String::new() },
                trace: t.clone(),
                original_events: 0,
            };
            std::fs::write(&self.tmp, serde_json::to_string(&rf).unwrap()).ok()?;
            let exe = std::env::current_exe().ok()?;
            let mut child = std::process::Command::new(exe)
                .arg("replay")
                .arg(&self.tmp)
                .arg("--trace")
                .stdout(std::process::Stdio::piped())
                .stderr(std::process::Stdio::null())
                .spawn()
                .ok()?;
            let st = Instant::now();
            loop {
                match child.try_wait() {
                    Ok(Some(status)) => {
                        use std::io::Read;
                        let mut s = String::new();
                        let _ = child.stdout.take().map(|mut o| o.read_to_string(&mut s));
                        let last_ev = s.lines().filter(|l| l.starts_with("EV ")).last().and_then(|l| l.split_whitespace().nth(2)).and_then(|x| x.parse::<usize>().ok());
                        use std::os::unix::process::ExitStatusExt;
                        if status.signal().is_some() {
                            return if self.code == "C01-abort" { Some(last_ev.unwrap_or(0)) } else { None };
                        }
                        return if status.code() == Some(1) { Some(last_ev.unwrap_or(0)) } else { None };
                    }
                    Ok(None) => {
                        let cpu = crate::orchestrate::cpu_secs(child.id()).unwrap_or(0.0);
                        if cpu > 15.0 || st.elapsed().as_secs() > 300 {
                            let _ = child.kill();
                            let _ = child.wait();
                            return if self.code.ends_with("-hang") { Some(0) } else { None };
                        }
                        std::thread::sleep(std::time::Duration::from_millis(5));
                    }
                    Err(_) => return None,
                }
            }
        } else {
            let tr = t.clone();
            let prop = self.prop.clone();
            let out = crate::on_small_stack(move || exec::run_trace(&tr, &prop, None));
            out.findings.iter().find(|f| f.code == self.code).map(|f| f.event)
        }
    }
}

fn ddmin_events(ctx: &mut Ctx, t: &mut Trace) {
    let mut n = 2usize;
    while t.events.len() >= 2 && !ctx.over_budget() {
        let len = t.events.len();
        let chunk = (len + n - 1) / n;
        let mut reduced = false;
        let mut start = 0;
        while start < len {
            let end = (start + chunk).min(len);
            let mut cand = t.clone();
            // recovery deliveries (heal phase) are the subject of the recovery oracles: dropping
            // the template refresh in front of them would "reproduce" trivially
            let pinned = cand.events[start..end].iter().any(|e| matches!(e, Ev::Deliver { faults, .. } if faults.iter().any(|f| f == "heal" || f == "replay")));
            cand.events.drain(start..end);
            if !pinned && !cand.events.is_empty() && ctx.fails(&cand).is_some() {
                *t = cand;
                n = (n - 1).max(2);
                reduced = true;
                break;
            }
            start = end;
            if ctx.over_budget() {
                return;
            }
        }
        if !reduced {
            if n >= len {
                break;
            }
            n = (n * 2).min(len);
        }
    }
}

fn shrink_parts(ctx: &mut Ctx, t: &mut Trace) {
    let mut i = 0;
    while i < t.events.len() && !ctx.over_budget() {
        let mut progress = true;
        while progress && !ctx.over_budget() {
            progress = false;
            let Ev::Deliver { buf, parts, cut, .. } = &t.events[i] else { break };
            if parts.len() < 2 || parts.iter().sum::<usize>() != buf.len() {
                break;
            }
            let n = parts.len();
            for k in 0..n {
                // a truncated delivery keeps its last part
                if cut.is_some() && k == n - 1 {
                    continue;
                }
                let mut cand = t.clone();
                if let Ev::Deliver { buf, parts, cut, .. } = &mut cand.events[i] {
                    let off: usize = parts[..k].iter().sum();
                    let l = parts[k];
                    buf.drain(off..off + l);
                    parts.remove(k);
                    if let Some(c) = cut {
                        *c -= l;
                    }
                }
                if ctx.fails(&cand).is_some() {
                    *t = cand;
                    progress = true;
                    break;
                }
            }
        }
        i += 1;
    }
}

fn simplify_cfg(ctx: &mut Ctx, t: &mut Trace) {
    for i in 0..t.parsers.len() {
        if ctx.over_budget() {
            return;
        }
        let mut cand = t.clone();
        cand.parsers[i].hash_seed = 1;
        if cand != *t && ctx.fails(&cand).is_some() {
            *t = cand;
        }
        let mut cand = t.clone();
        cand.parsers[i].allowed = vec![5, 7, 9, 10];
        if cand != *t && ctx.fails(&cand).is_some() {
            *t = cand;
        }
    }
    // drop fault annotations and timestamps that no longer matter
    let mut cand = t.clone();
    for (k, e) in cand.events.iter_mut().enumerate() {
        match e {
            Ev::Deliver { t, .. } | Ev::Restart { t } | Ev::Reconfigure { t, .. } | Ev::ResetCaches { t, .. } => *t = k as u64,
        }
    }
    if ctx.fails(&cand).is_some() {
        *t = cand;
    }
}

/// Byte level: shorten the tail of the last delivery / zero bytes that do not matter.
fn shrink_bytes(ctx: &mut Ctx, t: &mut Trace) {
    let Some(last) = t.events.len().checked_sub(1) else { return };
    for i in (0..=last).rev() {
        if ctx.over_budget() {
            return;
        }
        let Ev::Deliver { buf, parts, cut, .. } = &t.events[i] else { continue };
        if cut.is_some() || parts.len() > 1 || buf.len() < 8 {
            continue;
        }
        // try halving the tail while keeping the failure
        let mut keep = buf.len();
        let mut step = keep / 2;
        while step >= 1 && !ctx.over_budget() {
            if keep > step {
                let mut cand = t.clone();
                if let Ev::Deliver { buf, parts, .. } = &mut cand.events[i] {
                    buf.truncate(keep - step);
                    *parts = vec![buf.len()];
                }
                if ctx.fails(&cand).is_some() {
                    *t = cand;
                    keep -= step;
                    continue;
                }
            }
            step /= 2;
        }
    }
}

/// Splits one V9 / IPFIX packet into (header, sets); None if it does not frame cleanly.
fn split_sets(pkt: &[u8]) -> Option<(Vec<u8>, Vec<Vec<u8>>)> {
    if pkt.len() < 4 {
        return None;
    }
    let ver = u16::from(pkt[0]) << 8 | u16::from(pkt[1]);
    let hdr = match ver {
        9 => 20,
        10 => 16,
        _ => return None,
    };
    if pkt.len() < hdr {
        return None;
    }
    let mut sets = Vec::new();
    let mut pos = hdr;
    while pos < pkt.len() {
        if pkt.len() - pos < 4 {
            return None;
        }
        let l = usize::from(u16::from(pkt[pos + 2]) << 8 | u16::from(pkt[pos + 3]));
        if l < 4 || pos + l > pkt.len() {
            return None;
        }
        sets.push(pkt[pos..pos + l].to_vec());
        pos += l;
    }
    Some((pkt[..hdr].to_vec(), sets))
}

fn join_sets(hdr: &[u8], sets: &[Vec<u8>], old_nsets: usize) -> Vec<u8> {
    let mut h = hdr.to_vec();
    let ver = u16::from(h[0]) << 8 | u16::from(h[1]);
    let total: usize = h.len() + sets.iter().map(|s| s.len()).sum::<usize>();
    if ver == 10 {
        h[2] = (total >> 8) as u8;
        h[3] = total as u8;
    } else {
        // V9: keep "count = number of flowsets" packets self-delimiting
        let count = usize::from(u16::from(h[2]) << 8 | u16::from(h[3]));
        if count == old_nsets {
            h[2] = (sets.len() >> 8) as u8;
            h[3] = sets.len() as u8;
        }
    }
    let mut v = h;
    for s in sets {
        v.extend_from_slice(s);
    }
    v
}

/// Structure-aware: drop whole sets from V9 / IPFIX packets, then shorten the body of the
/// remaining sets from the tail in 4-byte steps (records / trailing template records).
fn shrink_sets(ctx: &mut Ctx, t: &mut Trace) {
    for i in 0..t.events.len() {
        let Ev::Deliver { buf, parts, cut, .. } = &t.events[i] else { continue };
        if cut.is_some() || parts.iter().sum::<usize>() != buf.len() || parts.is_empty() {
            continue;
        }
        let nparts = parts.len();
        for pi in 0..nparts {
            let mut progress = true;
            while progress && !ctx.over_budget() {
                progress = false;
                let Ev::Deliver { buf, parts, .. } = &t.events[i] else { break };
                let off: usize = parts[..pi].iter().sum();
                let Some((hdr, sets)) = split_sets(&buf[off..off + parts[pi]]) else { break };
                if sets.is_empty() {
                    break;
                }
                let n = sets.len();
                let mut cands: Vec<Vec<Vec<u8>>> = Vec::new();
                if n > 1 {
                    for k in 0..n {
                        let mut s2 = sets.clone();
                        s2.remove(k);
                        cands.push(s2);
                    }
                }
                // halve / trim set bodies (keep the 4-byte set header, fix its length)
                for k in 0..n {
                    let body = sets[k].len() - 4;
                    for keep in [body / 2, body.saturating_sub(4), body.saturating_sub(1)] {
                        if keep < body {
                            let mut s2 = sets.clone();
                            let mut x = s2[k][..4 + keep].to_vec();
                            let l = x.len();
                            x[2] = (l >> 8) as u8;
                            x[3] = l as u8;
                            s2[k] = x;
                            cands.push(s2);
                        }
                    }
                }
                for s2 in cands {
                    let newpkt = join_sets(&hdr, &s2, n);
                    let mut cand = t.clone();
                    if let Ev::Deliver { buf, parts, .. } = &mut cand.events[i] {
                        let off: usize = parts[..pi].iter().sum();
                        buf.splice(off..off + parts[pi], newpkt.iter().cloned());
                        parts[pi] = newpkt.len();
                    }
                    if ctx.fails(&cand).is_some() {
                        *t = cand;
                        progress = true;
                        break;
                    }
                    if ctx.over_budget() {
                        return;
                    }
                }
            }
        }
    }
}

pub fn minimise(rf: &ReplayFile, subprocess: bool) -> ReplayFile {
    let mut ctx = Ctx {
        prop: rf.property.clone(),
        code: rf.violation.code.clone(),
        subprocess,
        evals: 0,
        start: Instant::now(),
        tmp: format!("{}/replays/raw/shrink-{}-{}.tmp", crate::orchestrate::out(), rf.property, std::process::id()),
    };
    let mut t = rf.trace.clone();
    let Some(ev) = ctx.fails(&t) else {
        // does not reproduce in-process (e.g. nondeterminism would show here): keep as is
        return rf.clone();
    };
    // nothing after the violating event matters
    if ev + 1 < t.events.len() {
        let mut cand = t.clone();
        cand.events.truncate(ev + 1);
        if ctx.fails(&cand).is_some() {
            t = cand;
        }
    }
    ddmin_events(&mut ctx, &mut t);
    shrink_parts(&mut ctx, &mut t);
    ddmin_events(&mut ctx, &mut t);
    shrink_sets(&mut ctx, &mut t);
    // byte-level shrinking changes what the sender sent; only for survival / accounting
    // properties, where any byte string is a legitimate input
    if matches!(rf.property.as_str(), "C01" | "C02" | "C15" | "C16") {
        shrink_bytes(&mut ctx, &mut t);
    }
    simplify_cfg(&mut ctx, &mut t);
    let ev = ctx.fails(&t).unwrap_or(0);
    let _ = std::fs::remove_file(&ctx.tmp);
    // final message from a fresh in-process run when possible
    let mut violation = rf.violation.clone();
    violation.event = ev;
    if !subprocess {
        let tr = t.clone();
        let prop = rf.property.clone();
        let out = crate::on_small_stack(move || exec::run_trace(&tr, &prop, None));
        if let Some(f) = out.findings.iter().find(|f| f.code == rf.violation.code) {
            violation.message = f.message.clone();
            violation.event = f.event;
        }
    }
    ReplayFile { trace: t, violation, original_events: rf.trace.events.len(), ..rf.clone() }
}

pub fn main(args: &[String]) -> i32 {
    let (Some(input), Some(output)) = (args.get(0), args.get(1)) else {
        eprintln!("usage: nfsim shrink <raw> <out> [--subprocess]");
        return 2;
    };
    let Ok(text) = std::fs::read_to_string(input) else { return 2 };
    let Ok(rf) = serde_json::from_str::<ReplayFile>(&text) else { return 2 };
    let sub = args.iter().any(|a| a == "--subprocess");
    let m = minimise(&rf, sub);
    if std::fs::write(output, serde_json::to_string_pretty(&m).unwrap()).is_err() {
        return 2;
    }
    println!("shrunk {} -> {} events", rf.trace.events.len(), m.trace.events.len());
    0
}
