//! nfsim — deterministic simulation of exporters -> lossy network -> netflow_parser collector.
//!
//!   nfsim check  --prop C06 --tier quick|thorough     orchestrator (never runs library code)
//!   nfsim worker --prop C06 --verif-seed S            reads "RUN a b" lines, journals to stdout
//!   nfsim one    --prop C06 --verif-seed S --index i  one run in trace mode (EV lines)
//!   nfsim replay <file>                               re-executes a replay file's trace
//!   nfsim shrink <raw> <out>                          minimises a raw replay file
//!   nfsim selftest determinism                        digest equality across processes

mod alloc;
mod checks;
mod exec;
mod flat;
mod gen;
mod hostile;
mod json;
mod model;
mod orchestrate;
mod profiles;
mod rng;
mod shrink;
mod trace;
mod wire;

#[global_allocator]
static GLOBAL: alloc::Counting = alloc::Counting;

use std::io::{BufRead, Write};

pub const DEFAULT_SEED: u64 = 20261004;
pub const STACK: usize = 2 * 1024 * 1024;

pub fn prop_tag(prop: &str) -> u64 {
    let mut d = rng::Digest::default();
    d.str(prop);
    d.finish()
}

pub fn features() -> &'static str {
    if exec::UNKNOWN_FIELDS_ON {
        "default(parse_unknown_fields)"
    } else {
        "no-default-features"
    }
}

/// Runs `f` on a thread with the 2 MiB stack the properties talk about.
pub fn on_small_stack<T: Send + 'static>(f: impl FnOnce() -> T + Send + 'static) -> T {
    std::thread::Builder::new().stack_size(STACK).spawn(f).unwrap().join().unwrap()
}

#[derive(serde::Serialize, serde::Deserialize, Debug, Clone)]
pub struct RunReport {
    pub index: u64,
    pub run_seed: u64,
    pub findings: Vec<exec::Finding>,
    pub stats: exec::RunStats,
    pub fired: std::collections::BTreeMap<String, u64>,
    pub events: usize,
    pub raw: Option<String>,
}

pub fn one_run(prop: &str, verif_seed: u64, index: u64, trace_mode: bool, raw_dir: &str) -> RunReport {
    let run_seed = rng::derive_seed(verif_seed, prop_tag(prop), index);
    let (trace, gstats) = profiles::gen_trace(prop, run_seed);
    let mut hb = |i: usize| {
        let out = std::io::stdout();
        let mut l = out.lock();
        let _ = writeln!(l, "EV {} {}", index, i);
        let _ = l.flush();
    };
    let out = if trace_mode { exec::run_trace(&trace, prop, Some(&mut hb)) } else { exec::run_trace(&trace, prop, None) };
    let mut raw = None;
    // Keep the trace of every run with a real finding; of runs that only met listed-finding
    // forms (KF-) keep the first few per worker process (they can be nearly every run).
    static KF_RAW: std::sync::atomic::AtomicUsize = std::sync::atomic::AtomicUsize::new(0);
    let real = out.findings.iter().any(|f| !f.code.starts_with("KF-"));
    let keep_kf = !real && !out.findings.is_empty() && KF_RAW.fetch_add(1, std::sync::atomic::Ordering::Relaxed) < 40;
    if real || keep_kf {
        // keep the trace so that the orchestrator can shrink / classify it
        let first = out.findings[0].clone();
        let rf = trace::ReplayFile {
            property: prop.to_string(),
            verif_seed,
            features: features().to_string(),
            violation: trace::Violation { property: prop.to_string(), code: first.code.clone(), event: first.event, message: first.message.clone() },
            original_events: trace.events.len(),
            trace: trace.clone(),
        };
        let path = format!("{}/raw-{}-{}.json", raw_dir, prop, run_seed);
        let _ = std::fs::create_dir_all(raw_dir);
        if std::fs::write(&path, serde_json::to_string(&rf).unwrap()).is_ok() {
            raw = Some(path);
        }
    }
    RunReport {
        index,
        run_seed,
        findings: out.findings,
        stats: out.stats,
        fired: gstats.fired.iter().map(|(k, v)| (k.to_string(), *v)).collect(),
        events: trace.events.len(),
        raw,
    }
}

fn arg(args: &[String], name: &str) -> Option<String> {
    args.iter().position(|a| a == name).and_then(|i| args.get(i + 1).cloned())
}

fn worker(args: &[String]) {
    let prop = arg(args, "--prop").expect("--prop");
    let vs: u64 = arg(args, "--verif-seed").and_then(|s| s.parse().ok()).unwrap_or(DEFAULT_SEED);
    let raw_dir = arg(args, "--raw-dir").unwrap_or_else(|| format!("{}/replays/raw", orchestrate::out()));
    let stdin = std::io::stdin();
    for line in stdin.lock().lines() {
        let Ok(line) = line else { break };
        let mut it = line.split_whitespace();
        match it.next() {
            Some("RUN") => {
                let a: u64 = it.next().unwrap().parse().unwrap();
                let b: u64 = it.next().unwrap().parse().unwrap();
                for i in a..b {
                    {
                        let out = std::io::stdout();
                        let mut l = out.lock();
                        let _ = writeln!(l, "BEGIN {}", i);
                        let _ = l.flush();
                    }
                    let p = prop.clone();
                    let rd = raw_dir.clone();
                    let rep = on_small_stack(move || one_run(&p, vs, i, false, &rd));
                    let out = std::io::stdout();
                    let mut l = out.lock();
                    let _ = writeln!(l, "END {}", serde_json::to_string(&rep).unwrap());
                    let _ = l.flush();
                }
                let out = std::io::stdout();
                let mut l = out.lock();
                let _ = writeln!(l, "DONE {} {}", a, b);
                let _ = l.flush();
            }
            Some("FILE") => {
                // a committed corpus trace: run it under this property's oracles
                let k: u64 = it.next().unwrap().parse().unwrap();
                let path = it.next().unwrap().to_string();
                {
                    let out = std::io::stdout();
                    let mut l = out.lock();
                    let _ = writeln!(l, "BEGIN {}", k);
                    let _ = l.flush();
                }
                let p = prop.clone();
                let rep = on_small_stack(move || {
                    let text = std::fs::read_to_string(&path).unwrap_or_default();
                    let tr = serde_json::from_str::<trace::ReplayFile>(&text).map(|r| r.trace).unwrap_or(trace::Trace {
                        prop: p.clone(),
                        run_seed: 0,
                        swarm: String::new(),
                        parsers: vec![],
                        events: vec![],
                        sim_ns: 0,
                    });
                    let out = exec::run_trace(&tr, &p, None);
                    RunReport { index: k, run_seed: tr.run_seed, findings: out.findings, stats: out.stats, fired: Default::default(), events: tr.events.len(), raw: Some(path) }
                });
                let out = std::io::stdout();
                let mut l = out.lock();
                let _ = writeln!(l, "END {}", serde_json::to_string(&rep).unwrap());
                let _ = writeln!(l, "DONE {} {}", k, k + 1);
                let _ = l.flush();
            }
            Some("QUIT") | None => break,
            _ => {}
        }
    }
}

fn one(args: &[String]) {
    let prop = arg(args, "--prop").expect("--prop");
    let vs: u64 = arg(args, "--verif-seed").and_then(|s| s.parse().ok()).unwrap_or(DEFAULT_SEED);
    let index: u64 = arg(args, "--index").and_then(|s| s.parse().ok()).expect("--index");
    let raw_dir = arg(args, "--raw-dir").unwrap_or_else(|| format!("{}/replays/raw", orchestrate::out()));
    let rep = on_small_stack(move || one_run(&prop, vs, index, true, &raw_dir));
    println!("END {}", serde_json::to_string(&rep).unwrap());
}

/// Exit status: 1 = the recorded violation code was reproduced, 0 = it was not, 2 = bad file.
fn replay(args: &[String]) -> i32 {
    let Some(path) = args.get(0) else {
        eprintln!("usage: nfsim replay <file>");
        return 2;
    };
    let Ok(text) = std::fs::read_to_string(path) else {
        eprintln!("cannot read {}", path);
        return 2;
    };
    let rf: trace::ReplayFile = match serde_json::from_str(&text) {
        Ok(x) => x,
        Err(e) => {
            eprintln!("bad replay file: {}", e);
            return 2;
        }
    };
    let trace_mode = args.iter().any(|a| a == "--trace");
    let prop = rf.property.clone();
    let tr = rf.trace.clone();
    let out = on_small_stack(move || {
        let mut hb = |i: usize| {
            println!("EV 0 {}", i);
            let _ = std::io::stdout().flush();
        };
        if trace_mode {
            exec::run_trace(&tr, &prop, Some(&mut hb))
        } else {
            exec::run_trace(&tr, &prop, None)
        }
    });
    println!("replay of {} (property {}, {} events, features {})", path, rf.property, rf.trace.events.len(), features());
    for f in &out.findings {
        println!("FINDING code={} event={} :: {}", f.code, f.event, f.message);
    }
    println!("DIGEST {:016x}", out.stats.digest);
    if out.findings.iter().any(|f| f.code == rf.violation.code) {
        println!("REPRODUCED code={} (recorded at event {})", rf.violation.code, rf.violation.event);
        1
    } else {
        println!("NOT REPRODUCED code={}", rf.violation.code);
        0
    }
}

fn main() {
    // a panic inside the library is caught where it matters; keep the default hook quiet so
    // that millions of expected catch_unwind's do not flood stderr
    std::panic::set_hook(Box::new(|_| {}));
    let args: Vec<String> = std::env::args().skip(1).collect();
    let code = match args.first().map(|s| s.as_str()) {
        Some("check") => orchestrate::check(&args[1..]),
        Some("worker") => {
            worker(&args[1..]);
            0
        }
        Some("one") => {
            one(&args[1..]);
            0
        }
        Some("replay") => replay(&args[1..]),
        Some("shrink") => shrink::main(&args[1..]),
        Some("selftest") => orchestrate::selftest(&args[1..]),
        Some("gen") => {
            let prop = arg(&args, "--prop").unwrap();
            let index: u64 = arg(&args, "--index").and_then(|s| s.parse().ok()).unwrap_or(0);
            let vs: u64 = arg(&args, "--verif-seed").and_then(|s| s.parse().ok()).unwrap_or(DEFAULT_SEED);
            let (t, g) = profiles::gen_trace(&prop, rng::derive_seed(vs, prop_tag(&prop), index));
            println!("{}", serde_json::to_string_pretty(&t).unwrap());
            eprintln!("{:?}", g.fired);
            0
        }
        Some("build-failure") => orchestrate::build_failure(&args[1..]),
        _ => {
            eprintln!("usage: nfsim check|worker|one|replay|shrink|selftest ...");
            2
        }
    };
    std::process::exit(code);
}
