//! Reference collector model: a deliberately dull, independent re-implementation of what the
//! properties say a collector must do with RFC 3954 / RFC 7011 / Cisco V5/V7 byte streams.
//! It shares no code with /repo/src and does not use nom. The only thing taken from the
//! library is the *assignment* field number -> (name, data type) through its public lookup
//! (`V9Field::from(u16)`, `FieldDataType::from(V9Field)`, same for IPFIX): the properties say
//! "in the type the library assigns to that field", and those tables are pinned by the
//! repository's snapshot tests. They are listed as trusted base in every evidence file.

use netflow_parser::variable_versions::data_number::FieldDataType;
use netflow_parser::variable_versions::ipfix_lookup::IPFixField;
use netflow_parser::variable_versions::v9_lookup::V9Field;
use std::collections::{BTreeMap, BTreeSet};

#[derive(Clone, Copy, PartialEq, Eq, Debug, PartialOrd, Ord)]
pub enum Proto {
    V9,
    Ipfix,
}

#[derive(Clone, Copy, PartialEq, Eq, Debug)]
pub enum Dt {
    Str,
    Signed,
    Unsigned,
    F64,
    DurS,
    DurMs,
    DurUs,
    DurNs,
    Ip4,
    Ip6,
    Mac,
    Vec,
    ProtoT,
    Unknown,
}

fn conv_dt(d: FieldDataType) -> Dt {
    match d {
        FieldDataType::String => Dt::Str,
        FieldDataType::SignedDataNumber => Dt::Signed,
        FieldDataType::UnsignedDataNumber => Dt::Unsigned,
        FieldDataType::Float64 => Dt::F64,
        FieldDataType::DurationSeconds => Dt::DurS,
        FieldDataType::DurationMillis => Dt::DurMs,
        FieldDataType::DurationMicros => Dt::DurUs,
        FieldDataType::DurationNanos => Dt::DurNs,
        FieldDataType::Ip4Addr => Dt::Ip4,
        FieldDataType::Ip6Addr => Dt::Ip6,
        FieldDataType::MacAddr => Dt::Mac,
        FieldDataType::Vec => Dt::Vec,
        FieldDataType::ProtocolType => Dt::ProtoT,
        FieldDataType::Unknown => Dt::Unknown,
    }
}

pub fn v9_dt(typ: u16) -> Dt {
    conv_dt(FieldDataType::from(V9Field::from(typ)))
}
pub fn ipfix_dt(typ: u16) -> Dt {
    conv_dt(FieldDataType::from(IPFixField::from(typ)))
}
pub fn v9_name(typ: u16) -> String {
    format!("{:?}", V9Field::from(typ))
}
pub fn ipfix_name(typ: u16) -> String {
    format!("{:?}", IPFixField::from(typ))
}

/// One field specifier of a template. `typ` is the information element number without the
/// enterprise bit; `ent` is the enterprise number when the bit was set (IPFIX only);
/// `len == 65535` means variable length (IPFIX only).
#[derive(Clone, PartialEq, Eq, Debug, PartialOrd, Ord)]
pub struct FSpec {
    pub typ: u16,
    pub len: u16,
    pub ent: Option<u32>,
}

#[derive(Clone, PartialEq, Eq, Debug)]
pub enum TDef {
    /// V9 template / IPFIX template
    Tpl { field_count: u16, fields: Vec<FSpec> },
    /// V9 options template
    V9Opt { scope_len: u16, opt_len: u16, scope: Vec<FSpec>, opts: Vec<FSpec> },
    /// IPFIX options template
    IpOpt { field_count: u16, scope_count: u16, fields: Vec<FSpec> },
}

impl TDef {
    pub fn is_options(&self) -> bool {
        !matches!(self, TDef::Tpl { .. })
    }
    pub fn all_fields(&self) -> Vec<&FSpec> {
        match self {
            TDef::Tpl { fields, .. } => fields.iter().collect(),
            TDef::V9Opt { scope, opts, .. } => scope.iter().chain(opts.iter()).collect(),
            TDef::IpOpt { fields, .. } => fields.iter().collect(),
        }
    }
    /// Wire size of the template record itself (what was received to define it).
    pub fn wire_size(&self) -> usize {
        let f: usize = self.all_fields().iter().map(|f| if f.ent.is_some() { 8 } else { 4 }).sum();
        match self {
            TDef::Tpl { .. } => 4 + f,
            _ => 6 + f,
        }
    }
    pub fn has_zero_len(&self) -> bool {
        self.all_fields().iter().any(|f| f.len == 0)
    }
    pub fn has_varlen(&self) -> bool {
        self.all_fields().iter().any(|f| f.len == 65535)
    }
}

/// Canonical value form, shared by the model (expected) and the flattener of the library's
/// result (observed).
#[derive(Clone, PartialEq, Debug)]
pub enum FV {
    U8(u8),
    U16(u16),
    U24(u32),
    I24(i32),
    U32(u32),
    U64(u64),
    U128(u128),
    I32(i32),
    Str(String),
    F64(u64),
    Dur(u64, u32),
    Ip4([u8; 4]),
    Ip6([u8; 16]),
    Mac(String),
    Vec(Vec<u8>),
    /// protocol number (both `p as u8` and `u8::from(p)` of the library value must give it)
    Proto(u8),
    Unknown(Vec<u8>),
    /// a value variant of the library that did not exist when this was written
    Other(String),
    /// library value that has no canonical form here (flattener only)
    Odd(String),
}

#[derive(Clone, PartialEq, Eq, Debug)]
pub enum Why {
    /// the width is not one the library decodes for this data type: stream not conformant
    UnsupportedWidth,
    /// correct value cannot be represented by the library's value type (known finding class)
    Unrepresentable(&'static str),
    /// feature parse_unknown_fields off and the field is unknown: record must not be reported
    UnknownFieldOff,
}

fn be_u128(b: &[u8]) -> u128 {
    let mut v: u128 = 0;
    for x in b {
        v = (v << 8) | u128::from(*x);
    }
    v
}

fn dur(secs: u64, nanos: u64) -> FV {
    FV::Dur(secs + nanos / 1_000_000_000, (nanos % 1_000_000_000) as u32)
}

/// The value the properties demand for a field of data type `dt` whose content bytes are
/// `raw` ("the big-endian interpretation, in the type the library assigns").
pub fn expected_value(dt: Dt, raw: &[u8], unknown_fields_on: bool) -> Result<FV, Why> {
    let w = raw.len();
    match dt {
        Dt::Unsigned => match w {
            1 => Ok(FV::U8(raw[0])),
            2 => Ok(FV::U16(be_u128(raw) as u16)),
            3 => Ok(FV::U24(be_u128(raw) as u32)),
            4 => Ok(FV::U32(be_u128(raw) as u32)),
            8 => Ok(FV::U64(be_u128(raw) as u64)),
            16 => Ok(FV::U128(be_u128(raw))),
            _ => Err(Why::UnsupportedWidth),
        },
        Dt::Signed => {
            if ![1, 2, 3, 4, 8, 16].contains(&w) {
                return Err(Why::UnsupportedWidth);
            }
            // sign-extend
            let u = be_u128(raw);
            let bits = (w * 8) as u32;
            let v: i128 = if bits == 128 {
                u as i128
            } else if u >> (bits - 1) & 1 == 1 {
                (u as i128) - (1i128 << bits)
            } else {
                u as i128
            };
            if w == 3 {
                Ok(FV::I24(v as i32))
            } else if v >= i128::from(i32::MIN) && v <= i128::from(i32::MAX) {
                Ok(FV::I32(v as i32))
            } else {
                Err(Why::Unrepresentable("signed value wider than i32"))
            }
        }
        Dt::Str => Ok(FV::Str(String::from_utf8_lossy(raw).to_string())),
        Dt::F64 => {
            if w == 8 {
                Ok(FV::F64(be_u128(raw) as u64))
            } else {
                Err(Why::UnsupportedWidth)
            }
        }
        Dt::DurS | Dt::DurMs | Dt::DurUs | Dt::DurNs => {
            if ![1, 2, 3, 4, 8].contains(&w) {
                return Err(Why::UnsupportedWidth);
            }
            let v = be_u128(raw) as u64;
            Ok(match dt {
                Dt::DurS => FV::Dur(v, 0),
                Dt::DurMs => dur(v / 1000, (v % 1000) * 1_000_000),
                Dt::DurUs => dur(v / 1_000_000, (v % 1_000_000) * 1000),
                _ => dur(v / 1_000_000_000, v % 1_000_000_000),
            })
        }
        Dt::Ip4 => {
            if w == 4 {
                Ok(FV::Ip4([raw[0], raw[1], raw[2], raw[3]]))
            } else {
                Err(Why::UnsupportedWidth)
            }
        }
        Dt::Ip6 => {
            if w == 16 {
                let mut a = [0u8; 16];
                a.copy_from_slice(raw);
                Ok(FV::Ip6(a))
            } else {
                Err(Why::UnsupportedWidth)
            }
        }
        Dt::Mac => {
            if w == 6 {
                Ok(FV::Mac(mac_text(raw)))
            } else {
                Err(Why::UnsupportedWidth)
            }
        }
        Dt::ProtoT => {
            if w == 1 {
                // numbers without a variant in the library's protocol type are its `Unknown`
                // (discriminant 145); that is the interpretation "in the type the library assigns"
                Ok(FV::Proto(if (145..=254).contains(&raw[0]) { 145 } else { raw[0] }))
            } else {
                Err(Why::UnsupportedWidth)
            }
        }
        Dt::Vec => Ok(FV::Vec(raw.to_vec())),
        Dt::Unknown => {
            if unknown_fields_on {
                Ok(FV::Vec(raw.to_vec()))
            } else {
                Err(Why::UnknownFieldOff)
            }
        }
    }
}

pub fn mac_text(raw: &[u8]) -> String {
    raw.iter().map(|b| format!("{:02X}", b)).collect::<Vec<_>>().join(":")
}

#[derive(Clone, Debug, PartialEq)]
pub struct MField {
    pub idx: usize,
    pub spec: FSpec,
    pub dt: Dt,
    pub name: String,
    /// bytes of the variable-length prefix as received (empty for fixed-length fields)
    pub prefix: Vec<u8>,
    /// content bytes
    pub raw: Vec<u8>,
    pub val: Result<FV, Why>,
}

#[derive(Clone, Debug, PartialEq)]
pub struct MRec {
    pub fields: Vec<MField>,
}

#[derive(Clone, Debug, PartialEq)]
pub enum MSetKind {
    /// template / options-template set: the records it carries, in order
    Tpls { tpls: Vec<(u16, TDef)>, pad: Vec<u8> },
    /// data set decoded with `def` (V9 data, IPFIX data, IPFIX options data)
    Data { tid: u16, def: TDef, recs: Vec<MRec>, pad: Vec<u8> },
    /// V9 options data: records of (scope fields, option fields), raw bytes only
    V9OData { tid: u16, def: TDef, recs: Vec<(Vec<(FSpec, Vec<u8>)>, Vec<(FSpec, Vec<u8>)>)>, pad: Vec<u8> },
    /// data set whose template id is not in this parser's cache for this protocol
    UnknownTpl { tid: u16 },
}

#[derive(Clone, Debug, PartialEq)]
pub struct MSet {
    pub id: u16,
    pub len: u16,
    /// absolute offset of the set header in the delivered buffer
    pub off: usize,
    pub kind: MSetKind,
    /// data set whose template id was tainted (listed finding) when the set was met
    pub tainted: bool,
}

#[derive(Clone, Debug, PartialEq)]
pub enum MBody {
    V5 { count: u16 },
    V7 { count: u16 },
    V9 { hdr: [u32; 5], sets: Vec<MSet> },
    Ipfix { hdr: [u32; 4], sets: Vec<MSet> },
}

#[derive(Clone, Debug, PartialEq)]
pub struct MPkt {
    pub start: usize,
    pub len: usize,
    pub version: u16,
    pub body: MBody,
    /// V9: a data flowset referenced an unknown template, the packet must be an error;
    /// IPFIX: at least one set is UnknownTpl
    pub has_unknown: bool,
}

#[derive(Clone, Debug, PartialEq)]
pub enum Stop {
    /// buffer consumed exactly
    End,
    /// next packet's version is not in the allowed set: nothing from `off` on may be
    /// reported or cached
    Disallowed { off: usize, version: u16 },
    /// allowed version that is none of 5, 7, 9, 10: UnknownVersion error with the rest
    UnknownVersion { off: usize, version: u16 },
    /// V9 packet starting at `off` references an unknown template: error with the rest
    V9Unknown { off: usize },
    /// the walk met bytes that are not a conformant export stream
    NonConformant { off: usize, reason: String },
}

#[derive(Clone, Debug, PartialEq)]
pub struct Walk {
    pub pkts: Vec<MPkt>,
    pub stop: Stop,
}

impl Walk {
    pub fn conformant(&self) -> bool {
        !matches!(self.stop, Stop::NonConformant { .. })
    }
    /// every packet decodable, nothing unknown, whole buffer consumed or cleanly filtered
    pub fn fully_known(&self) -> bool {
        self.conformant()
            && !matches!(self.stop, Stop::V9Unknown { .. })
            && self.pkts.iter().all(|p| !p.has_unknown)
            && !self.has_tainted()
    }
    /// some data set's template is unreliable on the real side (listed finding)
    pub fn has_tainted(&self) -> bool {
        self.pkts.iter().any(|p| match &p.body {
            MBody::V9 { sets, .. } | MBody::Ipfix { sets, .. } => sets.iter().any(|s| s.tainted),
            _ => false,
        })
    }
}

/// Per parser instance: template knowledge the model holds. One map per protocol, keyed by
/// id; latest definition wins whatever its kind; nothing is ever removed.
#[derive(Clone, Debug, Default, PartialEq)]
pub struct MCache {
    pub v9: BTreeMap<u16, TDef>,
    pub ipfix: BTreeMap<u16, TDef>,
    /// ids whose real-side definition is known to be unreliable because a listed known
    /// finding was triggered for them (checks involving them are skipped until redefined)
    pub tainted: BTreeSet<(Proto, u16)>,
}

impl MCache {
    pub fn map(&self, p: Proto) -> &BTreeMap<u16, TDef> {
        match p {
            Proto::V9 => &self.v9,
            Proto::Ipfix => &self.ipfix,
        }
    }
    pub fn map_mut(&mut self, p: Proto) -> &mut BTreeMap<u16, TDef> {
        match p {
            Proto::V9 => &mut self.v9,
            Proto::Ipfix => &mut self.ipfix,
        }
    }
    pub fn state_digest(&self) -> u64 {
        let mut d = crate::rng::Digest::default();
        for (p, m) in [(0u64, &self.v9), (1u64, &self.ipfix)] {
            for (id, def) in m {
                d.u64(p);
                d.u64(u64::from(*id));
                d.str(&format!("{:?}", def));
            }
        }
        d.finish()
    }
}

/// A cached definition may come from a resync with the real parser after garbage; data sets
/// are only judged under definitions a conformant exporter could have sent.
pub fn def_conformant(proto: Proto, def: &TDef) -> bool {
    match (proto, def) {
        (Proto::V9, TDef::Tpl { field_count, fields }) => {
            usize::from(*field_count) == fields.len() && !fields.is_empty() && fields.iter().all(|f| f.len != 0 && f.len != 65535 && f.ent.is_none())
        }
        (Proto::V9, TDef::V9Opt { scope_len, opt_len, scope, opts }) => {
            usize::from(*scope_len) == 4 * scope.len()
                && usize::from(*opt_len) == 4 * opts.len()
                && !scope.is_empty()
                && scope.iter().all(|f| (1..=5).contains(&f.typ) && f.len != 0 && f.len != 65535)
                && opts.iter().all(|f| f.len != 0 && f.len != 65535)
        }
        (Proto::Ipfix, TDef::Tpl { field_count, fields }) => {
            usize::from(*field_count) == fields.len()
                && fields.iter().map(|f| if f.len == 65535 { 1 } else { usize::from(f.len) }).sum::<usize>() > 0
        }
        (Proto::Ipfix, TDef::IpOpt { field_count, scope_count, fields }) => {
            usize::from(*field_count) == fields.len()
                && *scope_count >= 1
                && scope_count <= field_count
                && fields.iter().map(|f| if f.len == 65535 { 1 } else { usize::from(f.len) }).sum::<usize>() > 0
        }
        _ => false,
    }
}

struct Cur<'a> {
    b: &'a [u8],
    pos: usize,
    end: usize,
}

impl<'a> Cur<'a> {
    fn left(&self) -> usize {
        self.end - self.pos
    }
    fn u8(&mut self) -> Option<u8> {
        if self.left() < 1 {
            return None;
        }
        let v = self.b[self.pos];
        self.pos += 1;
        Some(v)
    }
    fn u16(&mut self) -> Option<u16> {
        if self.left() < 2 {
            return None;
        }
        let v = u16::from(self.b[self.pos]) << 8 | u16::from(self.b[self.pos + 1]);
        self.pos += 2;
        Some(v)
    }
    fn u32(&mut self) -> Option<u32> {
        if self.left() < 4 {
            return None;
        }
        let v = be_u128(&self.b[self.pos..self.pos + 4]) as u32;
        self.pos += 4;
        Some(v)
    }
    fn take(&mut self, n: usize) -> Option<&'a [u8]> {
        if self.left() < n {
            return None;
        }
        let s = &self.b[self.pos..self.pos + n];
        self.pos += n;
        Some(s)
    }
    fn rest(&mut self) -> &'a [u8] {
        let s = &self.b[self.pos..self.end];
        self.pos = self.end;
        s
    }
}

pub struct ModelCfg {
    /// state of the library feature `parse_unknown_fields` in this build
    pub unknown_fields_on: bool,
}

macro_rules! nonconf {
    ($pkts:expr, $off:expr, $($arg:tt)*) => {
        return Walk { pkts: $pkts, stop: Stop::NonConformant { off: $off, reason: format!($($arg)*) } }
    };
}

/// Widths the generator may use for a data type so that the stream stays conformant.
pub fn width_ok(dt: Dt, len: u16, varlen_allowed: bool) -> bool {
    if len == 65535 {
        return varlen_allowed && matches!(dt, Dt::Str | Dt::Vec | Dt::Unknown);
    }
    let w = len as usize;
    match dt {
        Dt::Unsigned | Dt::Signed => [1, 2, 3, 4, 8, 16].contains(&w),
        Dt::DurS | Dt::DurMs | Dt::DurUs | Dt::DurNs => [1, 2, 3, 4, 8].contains(&w),
        Dt::F64 => w == 8,
        Dt::Ip4 => w == 4,
        Dt::Ip6 => w == 16,
        Dt::Mac => w == 6,
        Dt::ProtoT => w == 1,
        // zero-length is allowed only for the byte-string types
        Dt::Str | Dt::Vec | Dt::Unknown => true,
    }
}

fn decode_field(
    proto: Proto,
    idx: usize,
    spec: &FSpec,
    prefix: &[u8],
    raw: &[u8],
    cfg: &ModelCfg,
) -> MField {
    let (dt, name) = if spec.ent.is_some() {
        // enterprise-specific element: opaque bytes, whatever the feature says
        (Dt::Vec, "Enterprise".to_string())
    } else {
        match proto {
            Proto::V9 => (v9_dt(spec.typ), v9_name(spec.typ)),
            Proto::Ipfix => (ipfix_dt(spec.typ), ipfix_name(spec.typ)),
        }
    };
    let val = expected_value(dt, raw, cfg.unknown_fields_on);
    MField { idx, spec: spec.clone(), dt, name, prefix: prefix.to_vec(), raw: raw.to_vec(), val }
}

/// Walk one delivered buffer, decoding it against (and updating) the model cache of the
/// parser instance it was delivered to.
pub fn walk(buf: &[u8], cache: &mut MCache, allowed: &[u16], cfg: &ModelCfg) -> Walk {
    let mut pkts: Vec<MPkt> = Vec::new();
    let mut off = 0usize;
    loop {
        if off == buf.len() {
            return Walk { pkts, stop: Stop::End };
        }
        if buf.len() - off < 2 {
            nonconf!(pkts, off, "trailing byte");
        }
        let version = u16::from(buf[off]) << 8 | u16::from(buf[off + 1]);
        if !allowed.contains(&version) {
            return Walk { pkts, stop: Stop::Disallowed { off, version } };
        }
        match version {
            5 | 7 => {
                let rec = if version == 5 { 48 } else { 52 };
                if buf.len() - off < 24 {
                    nonconf!(pkts, off, "v{} header truncated", version);
                }
                let count = u16::from(buf[off + 2]) << 8 | u16::from(buf[off + 3]);
                let len = 24 + rec * usize::from(count);
                if buf.len() - off < len {
                    nonconf!(pkts, off, "v{} records truncated", version);
                }
                let body = if version == 5 { MBody::V5 { count } } else { MBody::V7 { count } };
                pkts.push(MPkt { start: off, len, version, body, has_unknown: false });
                off += len;
            }
            9 => {
                if buf.len() - off < 20 {
                    nonconf!(pkts, off, "v9 header truncated");
                }
                let mut c = Cur { b: buf, pos: off + 2, end: buf.len() };
                let count = c.u16().unwrap();
                let hdr = [
                    u32::from(count),
                    c.u32().unwrap(),
                    c.u32().unwrap(),
                    c.u32().unwrap(),
                    c.u32().unwrap(),
                ];
                let mut sets = Vec::new();
                let mut pos = off + 20;
                let mut n = 0u32;
                while n < u32::from(count) && pos < buf.len() {
                    if buf.len() - pos < 4 {
                        nonconf!(pkts, pos, "v9 flowset header truncated");
                    }
                    let id = u16::from(buf[pos]) << 8 | u16::from(buf[pos + 1]);
                    let len = u16::from(buf[pos + 2]) << 8 | u16::from(buf[pos + 3]);
                    if len < 4 || buf.len() - pos < usize::from(len) {
                        nonconf!(pkts, pos, "v9 flowset length {} does not fit", len);
                    }
                    let mut c = Cur { b: buf, pos: pos + 4, end: pos + usize::from(len) };
                    let kind = match id {
                        0 => {
                            let mut tpls = Vec::new();
                            while c.left() >= 4 {
                                let tid = c.u16().unwrap();
                                let fc = c.u16().unwrap();
                                if tid < 256 || fc == 0 {
                                    nonconf!(pkts, pos, "v9 template id {} count {}", tid, fc);
                                }
                                let mut fields = Vec::new();
                                for _ in 0..fc {
                                    let (Some(t), Some(l)) = (c.u16(), c.u16()) else {
                                        nonconf!(pkts, pos, "v9 template record incomplete");
                                    };
                                    if l == 0 || l == 65535 {
                                        nonconf!(pkts, pos, "v9 field length {}", l);
                                    }
                                    fields.push(FSpec { typ: t, len: l, ent: None });
                                }
                                tpls.push((tid, TDef::Tpl { field_count: fc, fields }));
                            }
                            let pad = c.rest().to_vec();
                            if tpls.is_empty() {
                                nonconf!(pkts, pos, "empty template flowset");
                            }
                            for (tid, def) in &tpls {
                                cache.v9.insert(*tid, def.clone());
                                cache.tainted.remove(&(Proto::V9, *tid));
                            }
                            MSetKind::Tpls { tpls, pad }
                        }
                        1 => {
                            let mut tpls = Vec::new();
                            while c.left() >= 6 {
                                let tid = c.u16().unwrap();
                                let sl = c.u16().unwrap();
                                let ol = c.u16().unwrap();
                                if tid < 256 || sl % 4 != 0 || ol % 4 != 0 || sl == 0 {
                                    nonconf!(pkts, pos, "v9 options template {} {} {}", tid, sl, ol);
                                }
                                let mut scope = Vec::new();
                                let mut opts = Vec::new();
                                for i in 0..(sl / 4 + ol / 4) {
                                    let (Some(t), Some(l)) = (c.u16(), c.u16()) else {
                                        nonconf!(pkts, pos, "v9 options template record incomplete");
                                    };
                                    if l == 0 || l == 65535 {
                                        nonconf!(pkts, pos, "v9 options field length {}", l);
                                    }
                                    if i < sl / 4 {
                                        if !(1..=5).contains(&t) {
                                            nonconf!(pkts, pos, "v9 scope field type {}", t);
                                        }
                                        scope.push(FSpec { typ: t, len: l, ent: None });
                                    } else {
                                        opts.push(FSpec { typ: t, len: l, ent: None });
                                    }
                                }
                                tpls.push((tid, TDef::V9Opt { scope_len: sl, opt_len: ol, scope, opts }));
                            }
                            let pad = c.rest().to_vec();
                            if tpls.is_empty() || pad.len() > 3 {
                                nonconf!(pkts, pos, "options template flowset padding {}", pad.len());
                            }
                            for (tid, def) in &tpls {
                                cache.v9.insert(*tid, def.clone());
                                cache.tainted.remove(&(Proto::V9, *tid));
                            }
                            MSetKind::Tpls { tpls, pad }
                        }
                        2..=255 => {
                            nonconf!(pkts, pos, "reserved v9 flowset id {}", id);
                        }
                        _ => match cache.v9.get(&id).cloned() {
                            None => MSetKind::UnknownTpl { tid: id },
                            Some(def) if !def_conformant(Proto::V9, &def) => {
                                nonconf!(pkts, pos, "cached v9 definition {} is not one a conformant exporter sends", id);
                            }
                            Some(def @ TDef::Tpl { .. }) => {
                                let TDef::Tpl { fields, .. } = &def else { unreachable!() };
                                let size: usize = fields.iter().map(|f| usize::from(f.len)).sum();
                                if size == 0 {
                                    nonconf!(pkts, pos, "zero-size template");
                                }
                                let nrec = c.left() / size;
                                if nrec == 0 || c.left() % size > 3 {
                                    nonconf!(pkts, pos, "v9 data flowset: {} records, {} left", nrec, c.left() % size);
                                }
                                let mut recs = Vec::new();
                                for _ in 0..nrec {
                                    let mut fs = Vec::new();
                                    for (i, f) in fields.iter().enumerate() {
                                        let raw = c.take(usize::from(f.len)).unwrap();
                                        let mf = decode_field(Proto::V9, i, f, &[], raw, cfg);
                                        if mf.val == Err(Why::UnsupportedWidth) {
                                            nonconf!(pkts, pos, "width {} unsupported for field {}", f.len, f.typ);
                                        }
                                        fs.push(mf);
                                    }
                                    recs.push(MRec { fields: fs });
                                }
                                let pad = c.rest().to_vec();
                                MSetKind::Data { tid: id, def, recs, pad }
                            }
                            Some(def @ TDef::V9Opt { .. }) => {
                                let TDef::V9Opt { scope, opts, .. } = &def else { unreachable!() };
                                let size: usize = scope.iter().chain(opts.iter()).map(|f| usize::from(f.len)).sum();
                                if size == 0 {
                                    nonconf!(pkts, pos, "zero-size options template");
                                }
                                let nrec = c.left() / size;
                                if nrec == 0 || c.left() % size > 3 {
                                    nonconf!(pkts, pos, "v9 options data: {} records, {} left", nrec, c.left() % size);
                                }
                                let mut recs = Vec::new();
                                for _ in 0..nrec {
                                    let s: Vec<_> = scope
                                        .iter()
                                        .map(|f| (f.clone(), c.take(usize::from(f.len)).unwrap().to_vec()))
                                        .collect();
                                    let o: Vec<_> = opts
                                        .iter()
                                        .map(|f| (f.clone(), c.take(usize::from(f.len)).unwrap().to_vec()))
                                        .collect();
                                    recs.push((s, o));
                                }
                                let pad = c.rest().to_vec();
                                MSetKind::V9OData { tid: id, def, recs, pad }
                            }
                            Some(TDef::IpOpt { .. }) => {
                                nonconf!(pkts, pos, "foreign definition");
                            }
                        },
                    };
                    let unknown = matches!(kind, MSetKind::UnknownTpl { .. });
                    let tainted = !matches!(kind, MSetKind::Tpls { .. }) && cache.tainted.contains(&(Proto::V9, id));
                    sets.push(MSet { id, len, off: pos, kind, tainted });
                    pos += usize::from(len);
                    n += 1;
                    if unknown {
                        // the whole packet is to be reported as an error holding the rest
                        pkts.push(MPkt {
                            start: off,
                            len: buf.len() - off,
                            version,
                            body: MBody::V9 { hdr, sets },
                            has_unknown: true,
                        });
                        return Walk { pkts, stop: Stop::V9Unknown { off } };
                    }
                }
                pkts.push(MPkt {
                    start: off,
                    len: pos - off,
                    version,
                    body: MBody::V9 { hdr, sets },
                    has_unknown: false,
                });
                off = pos;
            }
            10 => {
                if buf.len() - off < 16 {
                    nonconf!(pkts, off, "ipfix header truncated");
                }
                let mut c = Cur { b: buf, pos: off + 2, end: buf.len() };
                let length = c.u16().unwrap();
                let hdr = [u32::from(length), c.u32().unwrap(), c.u32().unwrap(), c.u32().unwrap()];
                if length < 16 || buf.len() - off < usize::from(length) {
                    nonconf!(pkts, off, "ipfix length {} does not fit", length);
                }
                let end = off + usize::from(length);
                let mut pos = off + 16;
                let mut sets = Vec::new();
                let mut has_unknown = false;
                while pos < end {
                    if end - pos < 4 {
                        nonconf!(pkts, pos, "ipfix set header truncated");
                    }
                    let id = u16::from(buf[pos]) << 8 | u16::from(buf[pos + 1]);
                    let len = u16::from(buf[pos + 2]) << 8 | u16::from(buf[pos + 3]);
                    if len < 4 || end - pos < usize::from(len) {
                        nonconf!(pkts, pos, "ipfix set length {} does not fit", len);
                    }
                    let mut c = Cur { b: buf, pos: pos + 4, end: pos + usize::from(len) };
                    let kind = match id {
                        2 | 3 => {
                            let mut tpls = Vec::new();
                            let hdr_len = if id == 2 { 4 } else { 6 };
                            while c.left() >= hdr_len {
                                let tid = c.u16().unwrap();
                                let fc = c.u16().unwrap();
                                let sc = if id == 3 { c.u16().unwrap() } else { 0 };
                                if tid < 256 || fc == 0 || (id == 3 && (sc == 0 || sc > fc)) {
                                    nonconf!(pkts, pos, "ipfix template id {} count {} scope {}", tid, fc, sc);
                                }
                                let mut fields = Vec::new();
                                for _ in 0..fc {
                                    let (Some(t), Some(l)) = (c.u16(), c.u16()) else {
                                        nonconf!(pkts, pos, "ipfix template record incomplete");
                                    };
                                    let ent = if t & 0x8000 != 0 {
                                        match c.u32() {
                                            Some(e) => Some(e),
                                            None => nonconf!(pkts, pos, "ipfix enterprise number incomplete"),
                                        }
                                    } else {
                                        None
                                    };
                                    fields.push(FSpec { typ: t & 0x7fff, len: l, ent });
                                }
                                let min: usize = fields
                                    .iter()
                                    .map(|f| if f.len == 65535 { 1 } else { usize::from(f.len) })
                                    .sum();
                                if min == 0 {
                                    nonconf!(pkts, pos, "ipfix template with zero minimum record length");
                                }
                                let def = if id == 2 {
                                    TDef::Tpl { field_count: fc, fields }
                                } else {
                                    TDef::IpOpt { field_count: fc, scope_count: sc, fields }
                                };
                                tpls.push((tid, def));
                            }
                            let pad = c.rest().to_vec();
                            if tpls.is_empty() || pad.len() > 3 {
                                nonconf!(pkts, pos, "ipfix template set padding {}", pad.len());
                            }
                            for (tid, def) in &tpls {
                                cache.ipfix.insert(*tid, def.clone());
                                cache.tainted.remove(&(Proto::Ipfix, *tid));
                            }
                            // (several records per set: the library reports only the first one - a
                            // listed finding about the reported shape - but learns all of them)
                            MSetKind::Tpls { tpls, pad }
                        }
                        0 | 1 | 4..=255 => {
                            nonconf!(pkts, pos, "reserved ipfix set id {}", id);
                        }
                        _ => match cache.ipfix.get(&id).cloned() {
                            None => {
                                has_unknown = true;
                                MSetKind::UnknownTpl { tid: id }
                            }
                            Some(def) if !def_conformant(Proto::Ipfix, &def) => {
                                nonconf!(pkts, pos, "cached ipfix definition {} is not one a conformant exporter sends", id);
                            }
                            Some(def) => {
                                let fields: Vec<FSpec> = def.all_fields().into_iter().cloned().collect();
                                let min: usize = fields
                                    .iter()
                                    .map(|f| if f.len == 65535 { 1 } else { usize::from(f.len) })
                                    .sum();
                                if min == 0 {
                                    nonconf!(pkts, pos, "zero minimum record length");
                                }
                                let mut recs = Vec::new();
                                while c.left() >= min {
                                    let mut fs = Vec::new();
                                    for (i, f) in fields.iter().enumerate() {
                                        let (prefix, raw): (Vec<u8>, &[u8]) = if f.len == 65535 {
                                            let Some(l1) = c.u8() else {
                                                nonconf!(pkts, pos, "varlen prefix missing");
                                            };
                                            if l1 == 255 {
                                                let Some(l2) = c.u16() else {
                                                    nonconf!(pkts, pos, "varlen long prefix missing");
                                                };
                                                let Some(r) = c.take(usize::from(l2)) else {
                                                    nonconf!(pkts, pos, "varlen content short");
                                                };
                                                (vec![255, (l2 >> 8) as u8, l2 as u8], r)
                                            } else {
                                                let Some(r) = c.take(usize::from(l1)) else {
                                                    nonconf!(pkts, pos, "varlen content short");
                                                };
                                                (vec![l1], r)
                                            }
                                        } else {
                                            let Some(r) = c.take(usize::from(f.len)) else {
                                                nonconf!(pkts, pos, "record short");
                                            };
                                            (vec![], r)
                                        };
                                        let mf = decode_field(Proto::Ipfix, i, f, &prefix, raw, cfg);
                                        if mf.val == Err(Why::UnsupportedWidth) {
                                            nonconf!(pkts, pos, "width {} unsupported for ie {}", raw.len(), f.typ);
                                        }
                                        fs.push(mf);
                                    }
                                    recs.push(MRec { fields: fs });
                                }
                                if recs.is_empty() {
                                    nonconf!(pkts, pos, "ipfix data set without a record");
                                }
                                let pad = c.rest().to_vec();
                                MSetKind::Data { tid: id, def, recs, pad }
                            }
                        },
                    };
                    let tainted = !matches!(kind, MSetKind::Tpls { .. }) && cache.tainted.contains(&(Proto::Ipfix, id));
                    sets.push(MSet { id, len, off: pos, kind, tainted });
                    pos += usize::from(len);
                }
                pkts.push(MPkt {
                    start: off,
                    len: usize::from(length),
                    version,
                    body: MBody::Ipfix { hdr, sets },
                    has_unknown,
                });
                off = end;
            }
            _ => {
                return Walk { pkts, stop: Stop::UnknownVersion { off, version } };
            }
        }
    }
}

/// Framing only (no cache): the lengths of the self-delimiting packets a buffer consists of,
/// per the rule C11 states (V5/V7 by count, IPFIX by length, V9 by `count` flowsets).
/// None if the buffer is not a clean concatenation of such packets.
pub fn frame(buf: &[u8]) -> Option<Vec<(u16, usize)>> {
    let mut out = Vec::new();
    let mut off = 0;
    while off < buf.len() {
        if buf.len() - off < 4 {
            return None;
        }
        let version = u16::from(buf[off]) << 8 | u16::from(buf[off + 1]);
        let f2 = usize::from(u16::from(buf[off + 2]) << 8 | u16::from(buf[off + 3]));
        let len = match version {
            5 => 24 + 48 * f2,
            7 => 24 + 52 * f2,
            10 => {
                if f2 < 16 {
                    return None;
                }
                f2
            }
            9 => {
                let mut pos = off + 20;
                if pos > buf.len() {
                    return None;
                }
                for _ in 0..f2 {
                    if buf.len() < pos + 4 {
                        return None;
                    }
                    let l = usize::from(u16::from(buf[pos + 2]) << 8 | u16::from(buf[pos + 3]));
                    if l < 4 {
                        return None;
                    }
                    pos += l;
                    if pos > buf.len() {
                        return None;
                    }
                }
                pos - off
            }
            _ => return None,
        };
        if off + len > buf.len() {
            return None;
        }
        out.push((version, len));
        off += len;
    }
    Some(out)
}
