//! The simulated world: exporter stubs -> seeded lossy network stub -> collector dispatch.
//! Produces a `Trace` (arrival-ordered deliveries and collector restarts). Nothing in here
//! calls the library's parser: UDP export is one-way, so the world never needs the
//! collector's answer, and keeping generation independent of the code under test is what
//! lets a trace be replayed, shrunk and re-judged on a changed tree.

use crate::model::{ipfix_dt, v9_dt, Dt, FSpec, TDef};
use crate::rng::Rng;
use crate::trace::{Ev, ParserCfg, Trace};
use crate::wire;
use std::cmp::Reverse;
use std::collections::{BTreeMap, BinaryHeap};

#[derive(Clone, Copy, Debug, PartialEq, Eq)]
pub enum ExKind {
    V9,
    Ipfix,
    V5,
    V7,
    /// hostile / broken sender
    Attacker,
    /// sends packets whose version field is none of 5, 7, 9, 10
    Odd,
}

#[derive(Clone, Debug)]
pub struct WorldCfg {
    pub exporters: Vec<ExKind>,
    /// exporter index -> parser index (several exporters may share a parser instance)
    pub parser_of: Vec<usize>,
    pub parsers: Vec<ParserCfg>,
    pub emissions: usize,
    // --- template pool ---
    pub max_templates: usize,
    pub max_fields: usize,
    pub id_space: u16,
    pub options: bool,
    pub enterprise: bool,
    pub varlen: bool,
    pub zero_len: bool,
    pub unknown_types: bool,
    pub multi_tpl_sets: bool,
    pub multi_rec_optdata: bool,
    pub proto_any: bool,
    pub non_utf8: bool,
    pub signed_wide: bool,
    pub projected_bias: bool,
    /// template ids over the whole 16-bit range, chosen so that ids alias under bit masks
    pub wide_ids: bool,
    /// widths that RFC reduced-size encoding allows but the library does not decode (5, 6, 7 ...)
    pub odd_widths: bool,
    pub max_records: usize,
    pub max_sets: usize,
    /// V9 header count = number of flowsets (self-delimiting form) instead of records
    pub count_flowsets: bool,
    // --- faults, per mille per datagram / per emission ---
    pub drop: u32,
    pub dup: u32,
    pub reorder: u32,
    pub corrupt: u32,
    pub truncate: u32,
    pub coalesce: u32,
    pub redefine: u32,
    pub kind_switch: u32,
    pub exporter_restart: u32,
    pub collector_restart: u32,
    pub partition: u32,
    pub data_before_template: u32,
    pub clock_jump: u32,
    pub heal: bool,
    /// size of the collector's receive buffer: a longer datagram is cut there (recv_from)
    pub recv_buf: usize,
}

impl WorldCfg {
    pub fn describe(&self) -> String {
        format!("{:?}", self)
    }
}

#[derive(Clone, Debug)]
struct Tpl {
    id: u16,
    def: TDef,
    announced: bool,
}

struct Exporter {
    kind: ExKind,
    parser: usize,
    tpls: Vec<Tpl>,
    seq: u32,
    source: u32,
    skew_ms: i64,
    down_until: u64,
    /// recent data-only packets with the definitions they were built from (for the heal
    /// phase: the SAME bytes are delivered again once the templates are there)
    sent_data: Vec<(Vec<u8>, Vec<(u16, TDef)>)>,
}

#[derive(Debug)]
enum Act {
    Emit(usize),
    Arrive { p: usize, buf: Vec<u8>, parts: Vec<usize>, cut: Option<usize>, faults: Vec<String> },
    CollectorRestart,
}

struct Item {
    at: u64,
    seq: u64,
    act: Act,
}
impl PartialEq for Item {
    fn eq(&self, o: &Self) -> bool {
        self.at == o.at && self.seq == o.seq
    }
}
impl Eq for Item {}
impl PartialOrd for Item {
    fn partial_cmp(&self, o: &Self) -> Option<std::cmp::Ordering> {
        Some(self.cmp(o))
    }
}
impl Ord for Item {
    fn cmp(&self, o: &Self) -> std::cmp::Ordering {
        Reverse((self.at, self.seq)).cmp(&Reverse((o.at, o.seq)))
    }
}

#[derive(Default, Clone, Debug)]
pub struct GenStats {
    pub fired: BTreeMap<&'static str, u64>,
}
impl GenStats {
    fn hit(&mut self, k: &'static str) {
        *self.fired.entry(k).or_insert(0) += 1;
    }
}

pub struct World<'a> {
    cfg: &'a WorldCfg,
    rng: Rng,
    now: u64,
    seq: u64,
    q: BinaryHeap<Item>,
    ex: Vec<Exporter>,
    pub stats: GenStats,
    v9_known: Vec<u16>,
    ipfix_known: Vec<u16>,
    hold: BTreeMap<usize, (Vec<u8>, Vec<usize>, usize)>,
}

const MS: u64 = 1_000_000;

pub fn known_types(p: ExKind) -> Vec<u16> {
    match p {
        ExKind::V9 => (1..400u16).filter(|t| v9_dt(*t) != Dt::Unknown).collect(),
        _ => (1..520u16).filter(|t| ipfix_dt(*t) != Dt::Unknown).collect(),
    }
}

fn dt_of(kind: ExKind, typ: u16) -> Dt {
    match kind {
        ExKind::V9 => v9_dt(typ),
        _ => ipfix_dt(typ),
    }
}

pub fn pick_len(rng: &mut Rng, dt: Dt, varlen: bool, zero: bool) -> u16 {
    match dt {
        Dt::Unsigned => *rng.pick(&[1u16, 2, 3, 4, 4, 8, 8, 16]),
        Dt::Signed => *rng.pick(&[1u16, 2, 3, 4, 4, 8, 16]),
        Dt::DurS | Dt::DurMs | Dt::DurUs | Dt::DurNs => *rng.pick(&[4u16, 4, 8, 8, 1, 2, 3]),
        Dt::F64 => 8,
        Dt::Ip4 => 4,
        Dt::Ip6 => 16,
        Dt::Mac => 6,
        Dt::ProtoT => 1,
        Dt::Str | Dt::Vec | Dt::Unknown => {
            if varlen && rng.chance(1, 4) {
                65535
            } else if zero && rng.chance(1, 12) {
                0
            } else {
                rng.range(1, 24) as u16
            }
        }
    }
}

const V9_PROJECTED: &[u16] = &[8, 12, 27, 28, 7, 11, 4, 22, 21, 56, 80];

impl<'a> World<'a> {
    pub fn new(cfg: &'a WorldCfg, rng: Rng) -> Self {
        World {
            cfg,
            rng,
            now: 0,
            seq: 0,
            q: BinaryHeap::new(),
            ex: Vec::new(),
            stats: GenStats::default(),
            v9_known: known_types(ExKind::V9),
            ipfix_known: known_types(ExKind::Ipfix),
            hold: BTreeMap::new(),
        }
    }

    fn push(&mut self, at: u64, act: Act) {
        self.seq += 1;
        self.q.push(Item { at, seq: self.seq, act });
    }

    fn rand_spec(&mut self, kind: ExKind) -> FSpec {
        let cfg = self.cfg;
        if kind == ExKind::Ipfix && cfg.enterprise && self.rng.chance(1, 8) {
            let len = if cfg.varlen && self.rng.chance(1, 4) {
                65535
            } else if cfg.zero_len && self.rng.chance(1, 10) {
                0
            } else {
                self.rng.range(1, 16) as u16
            };
            // enterprise element ids span the whole 15-bit range, 0 and 32767 included
            let typ = match self.rng.below(8) {
                0 => 0,
                1 => 32767,
                _ => self.rng.range(0, 32767) as u16,
            };
            return FSpec { typ, len, ent: Some(self.rng.next_u64() as u32) };
        }
        let typ = if cfg.unknown_types && self.rng.chance(1, 6) {
            // numbers the library's tables do not know
            let t = self.rng.range(520, 32767) as u16;
            t
        } else if cfg.projected_bias && self.rng.chance(1, 2) {
            *self.rng.pick(V9_PROJECTED)
        } else {
            let pool = if kind == ExKind::V9 { &self.v9_known } else { &self.ipfix_known };
            pool[self.rng.usize_below(pool.len())]
        };
        let dt = dt_of(kind, typ);
        if dt == Dt::Signed && !cfg.signed_wide {
            return FSpec { typ, len: *self.rng.pick(&[1u16, 2, 3, 4]), ent: None };
        }
        if cfg.odd_widths && matches!(dt, Dt::Unsigned | Dt::DurMs | Dt::DurS | Dt::Ip4 | Dt::Mac | Dt::F64) && self.rng.chance(1, 6) {
            return FSpec { typ, len: *self.rng.pick(&[5u16, 6, 7, 9, 12, 2, 3]), ent: None };
        }
        let len = pick_len(&mut self.rng, dt, cfg.varlen && kind == ExKind::Ipfix, cfg.zero_len && kind == ExKind::Ipfix);
        FSpec { typ, len, ent: None }
    }

    fn rand_def(&mut self, kind: ExKind, options: bool) -> TDef {
        let cfg = self.cfg;
        loop {
            let n = self.rng.urange(1, cfg.max_fields.max(1));
            if kind == ExKind::V9 && options {
                let ns = self.rng.urange(1, 3);
                let no = self.rng.urange(0, n.min(6));
                let scope: Vec<FSpec> = (0..ns)
                    .map(|_| FSpec { typ: self.rng.range(1, 5) as u16, len: *self.rng.pick(&[1u16, 2, 4, 4]), ent: None })
                    .collect();
                let opts: Vec<FSpec> = (0..no)
                    .map(|_| {
                        let mut f = self.rand_spec(kind);
                        if f.len == 0 {
                            f.len = 1;
                        }
                        f
                    })
                    .collect();
                return TDef::V9Opt { scope_len: (ns * 4) as u16, opt_len: (no * 4) as u16, scope, opts };
            }
            let fields: Vec<FSpec> = (0..n).map(|_| self.rand_spec(kind)).collect();
            let min: usize = fields.iter().map(|f| if f.len == 65535 { 1 } else { usize::from(f.len) }).sum();
            if min == 0 {
                continue;
            }
            if kind == ExKind::Ipfix && options {
                let sc = self.rng.urange(1, n) as u16;
                return TDef::IpOpt { field_count: n as u16, scope_count: sc, fields };
            }
            return TDef::Tpl { field_count: n as u16, fields };
        }
    }

    fn new_templates(&mut self, kind: ExKind) -> Vec<Tpl> {
        if !matches!(kind, ExKind::V9 | ExKind::Ipfix) {
            return vec![];
        }
        let n = self.rng.urange(1, self.cfg.max_templates.max(1));
        let mut out: Vec<Tpl> = Vec::new();
        for _ in 0..n {
            let base: u16 = if self.cfg.wide_ids { *self.rng.pick(&[256u16, 512, 4352, 33024, 65024, 256]) } else { 256 };
            let id = base.saturating_add((self.rng.below(u64::from(self.cfg.id_space.max(1))) as u16).min(65535 - base));
            if out.iter().any(|t| t.id == id) {
                continue;
            }
            let options = self.cfg.options && self.rng.chance(1, 4);
            let def = self.rand_def(kind, options);
            out.push(Tpl { id, def, announced: false });
        }
        out
    }

    fn gen_value(&mut self, kind: ExKind, f: &FSpec, out: &mut Vec<u8>) {
        let cfg = self.cfg;
        let dt = if f.ent.is_some() { Dt::Vec } else { dt_of(kind, f.typ) };
        let n = if f.len == 65535 {
            let long = self.rng.chance(1, 12);
            let n = if long { self.rng.urange(0, 300) } else { self.rng.urange(0, 40) };
            if long || n >= 255 {
                out.push(255);
                wire::be16(out, n as u16);
            } else {
                out.push(n as u8);
            }
            n
        } else {
            usize::from(f.len)
        };
        match dt {
            Dt::Str => {
                if cfg.non_utf8 && self.rng.chance(1, 8) {
                    out.extend(self.rng.bytes(n));
                } else {
                    for _ in 0..n {
                        out.push(self.rng.range(0x20, 0x7e) as u8);
                    }
                }
            }
            Dt::ProtoT => {
                let b = if cfg.proto_any {
                    self.rng.byte()
                } else if self.rng.chance(1, 20) {
                    255
                } else {
                    self.rng.range(0, 144) as u8
                };
                out.push(b);
            }
            Dt::F64 if self.rng.chance(1, 4) => {
                let special: [u64; 8] = [
                    0x7ff0_0000_0000_0000, 0xfff0_0000_0000_0000, 0x7ff8_0000_0000_0000, 0x7ff0_0000_0000_0001,
                    0x8000_0000_0000_0000, 0x0000_0000_0000_0001, 0x7fef_ffff_ffff_ffff, 0x3ff0_0000_0000_0000,
                ];
                let v = *self.rng.pick(&special);
                out.extend_from_slice(&v.to_be_bytes()[..n.min(8)]);
            }
            Dt::Signed if !cfg.signed_wide && n > 4 => {
                // keep within i32 so that the library's value type can hold it
                let v = self.rng.next_u64() as i32;
                let ext: u8 = if v < 0 { 0xff } else { 0 };
                out.extend(std::iter::repeat(ext).take(n - 4));
                out.extend_from_slice(&v.to_be_bytes());
            }
            _ => {
                let mode = self.rng.below(10);
                let b: Vec<u8> = match mode {
                    0 => vec![0; n],
                    1 => vec![0xff; n],
                    2 => {
                        let mut v = vec![0; n];
                        if n > 0 {
                            v[0] = 0x80;
                        }
                        v
                    }
                    3 => {
                        let mut v = vec![0xff; n];
                        if n > 0 {
                            v[0] = 0x7f;
                        }
                        v
                    }
                    4 => {
                        let mut v = vec![0; n];
                        if n > 0 {
                            v[n - 1] = 1;
                        }
                        v
                    }
                    _ => self.rng.bytes(n),
                };
                out.extend(b);
            }
        }
    }

    fn record(&mut self, kind: ExKind, def: &TDef, out: &mut Vec<u8>) {
        if let TDef::V9Opt { scope, opts, .. } = def {
            // scope fields and option fields of V9 options data are opaque byte strings
            for f in scope.iter().chain(opts.iter()) {
                let n = usize::from(f.len);
                let b = match self.rng.below(4) {
                    0 => vec![0; n],
                    1 => vec![0xff; n],
                    _ => self.rng.bytes(n),
                };
                out.extend(b);
            }
            return;
        }
        let fields: Vec<FSpec> = def.all_fields().into_iter().cloned().collect();
        for f in &fields {
            self.gen_value(kind, f, out);
        }
    }

    /// A data set for template `t` with `n` records; returns (bytes, number of records).
    fn data_set(&mut self, kind: ExKind, t: &Tpl, n: usize) -> Vec<u8> {
        let mut body = Vec::new();
        let n = if matches!(t.def, TDef::V9Opt { .. }) && !self.cfg.multi_rec_optdata { 1 } else { n };
        for _ in 0..n {
            self.record(kind, &t.def, &mut body);
            if body.len() > 1300 {
                break;
            }
        }
        let min: usize = t.def.all_fields().iter().map(|f| if f.len == 65535 { 1 } else { usize::from(f.len) }).sum();
        let pad = match kind {
            ExKind::V9 => self.rng.urange(0, 3),
            _ => self.rng.urange(0, 3.min(min.saturating_sub(1))),
        };
        wire::set(t.id, &body, pad)
    }

    fn template_sets(&mut self, kind: ExKind, which: &[usize], e: usize, single: bool) -> Vec<Vec<u8>> {
        // group consecutive records of the same set kind into one set when multi-record
        // sets are enabled, else one set per record
        let mut sets = Vec::new();
        let mut i = 0;
        while i < which.len() {
            let t = self.ex[e].tpls[which[i]].clone();
            let opt = t.def.is_options();
            let set_id = match (kind, opt) {
                (ExKind::V9, false) => 0,
                (ExKind::V9, true) => 1,
                (_, false) => 2,
                (_, true) => 3,
            };
            let mut body = wire::template_record(t.id, &t.def);
            let mut j = i + 1;
            let multi_ok = kind == ExKind::V9 || (self.cfg.multi_tpl_sets && !single);
            while multi_ok && j < which.len() && self.ex[e].tpls[which[j]].def.is_options() == opt && self.rng.chance(2, 3) {
                let t2 = self.ex[e].tpls[which[j]].clone();
                body.extend(wire::template_record(t2.id, &t2.def));
                j += 1;
            }
            if j - i > 1 {
                self.stats.hit("multi_record_template_set");
            }
            let pad = if set_id == 1 || set_id == 3 {
                // options template records are 6+4n bytes: pad to a 4-byte boundary or not at all
                if self.rng.chance(1, 2) { (4 - body.len() % 4) % 4 } else { 0 }
            } else {
                self.rng.urange(0, 3)
            };
            sets.push(wire::set(set_id, &body, pad));
            for k in i..j {
                let idx = which[k];
                self.ex[e].tpls[idx].announced = true;
            }
            i = j;
        }
        sets
    }

    fn clock(&self, e: usize) -> (u32, u32) {
        let ms = (self.now / MS) as i64 + self.ex[e].skew_ms;
        ((ms as u64) as u32, (1_700_000_000i64 + ms / 1000) as u32)
    }

    fn assemble(&mut self, e: usize, sets: Vec<Vec<u8>>, nrecords: usize) -> Vec<u8> {
        let kind = self.ex[e].kind;
        let (uptime, secs) = self.clock(e);
        let seq = self.ex[e].seq;
        self.ex[e].seq = seq.wrapping_add(1);
        let source = self.ex[e].source;
        match kind {
            ExKind::V9 => {
                let count = if self.cfg.count_flowsets { sets.len() } else { nrecords.max(sets.len()) };
                wire::v9_packet(count as u16, uptime, secs, seq, source, &sets)
            }
            _ => wire::ipfix_packet(secs, seq, source, &sets),
        }
    }

    /// One export packet from exporter `e`.
    fn emit_packet(&mut self, e: usize) -> Vec<u8> {
        let kind = self.ex[e].kind;
        match kind {
            ExKind::V5 | ExKind::V7 => {
                let count = self.rng.urange(0, 6);
                let rec = if kind == ExKind::V5 { 48 } else { 52 };
                let mut hdr = [0u8; 20];
                hdr.copy_from_slice(&self.rng.bytes(20));
                let records = self.rng.bytes(count * rec);
                if kind == ExKind::V5 {
                    wire::v5(count as u16, &hdr, &records)
                } else {
                    wire::v7(count as u16, &hdr, &records)
                }
            }
            ExKind::Attacker => crate::hostile::packet(&mut self.rng),
            ExKind::Odd => {
                let mut v = Vec::new();
                let ver = if self.rng.chance(1, 4) { self.rng.next_u64() as u16 } else { *self.rng.pick(&[0u16, 1, 8, 11, 0xffff, 6, 2560, 2304]) };
                wire::be16(&mut v, ver);
                let n = self.rng.urange(0, 40);
                v.extend(self.rng.bytes(n));
                v
            }
            ExKind::V9 | ExKind::Ipfix if self.rng.chance(1, 30) => {
                // a header-only packet (keep-alive): legal, self-delimiting, decodes to no sets
                self.stats.hit("header_only_packet");
                self.assemble(e, vec![], 0)
            }
            ExKind::V9 | ExKind::Ipfix => {
                let cfg = self.cfg;
                // redefinition / kind switch / exporter restart happen right before an emission,
                // so that the new definition is in flight together with data for the id
                if self.rng.permille(cfg.exporter_restart) {
                    self.ex[e].tpls = self.new_templates(kind);
                    self.ex[e].seq = 0;
                    self.stats.hit("exporter_restart");
                }
                let mut must_announce: Vec<usize> = Vec::new();
                if !self.ex[e].tpls.is_empty() && self.rng.permille(cfg.redefine) {
                    let i = self.rng.usize_below(self.ex[e].tpls.len());
                    let was_opt = self.ex[e].tpls[i].def.is_options();
                    if self.ex[e].tpls[i].announced && self.rng.chance(1, 3) {
                        // redefinition in the middle of a packet: data under the old definition,
                        // the new template, data under the new definition
                        let old = self.ex[e].tpls[i].clone();
                        let opt = was_opt;
                        self.ex[e].tpls[i].def = self.rand_def(kind, opt);
                        self.stats.hit("redefine");
                        self.stats.hit("redefine_between_data_sets_of_one_packet");
                        let n1 = self.rng.urange(1, cfg.max_records.max(1));
                        let n2 = self.rng.urange(1, cfg.max_records.max(1));
                        let d1 = self.data_set(kind, &old, n1);
                        let t = self.template_sets(kind, &[i], e, true);
                        let new = self.ex[e].tpls[i].clone();
                        let d2 = self.data_set(kind, &new, n2);
                        let mut sets = vec![d1];
                        sets.extend(t);
                        sets.push(d2);
                        return self.assemble(e, sets, n1 + n2 + 1);
                    }
                    let opt = if cfg.options && self.rng.permille(cfg.kind_switch) { !was_opt } else { was_opt };
                    if opt != was_opt {
                        self.stats.hit("kind_switch");
                    }
                    self.ex[e].tpls[i].def = self.rand_def(kind, opt);
                    self.ex[e].tpls[i].announced = false;
                    self.stats.hit("redefine");
                    if !self.rng.permille(cfg.data_before_template) {
                        must_announce.push(i);
                    }
                }
                let n_tpl = self.ex[e].tpls.len();
                let mut sets: Vec<Vec<u8>> = Vec::new();
                let mut nrecords = 0usize;
                let n_sets = self.rng.urange(1, cfg.max_sets.max(1));
                // which templates to (re)announce in this packet
                let mut announce: Vec<usize> = must_announce.clone();
                for i in 0..n_tpl {
                    let t = &self.ex[e].tpls[i];
                    if announce.contains(&i) {
                        continue;
                    }
                    if (!t.announced && !self.rng.permille(cfg.data_before_template)) || self.rng.chance(1, 10) {
                        announce.push(i);
                    }
                }
                // interleave template sets and data sets
                let mut data_plan: Vec<usize> = Vec::new();
                for _ in 0..n_sets {
                    if n_tpl > 0 {
                        data_plan.push(self.rng.usize_below(n_tpl));
                    }
                }
                let tpl_first = !self.rng.chance(1, 8);
                if tpl_first && !announce.is_empty() {
                    nrecords += announce.len();
                    let s = self.template_sets(kind, &announce, e, false);
                    sets.extend(s);
                }
                let data_only = announce.is_empty();
                let mut used: Vec<(u16, TDef)> = Vec::new();
                for i in data_plan {
                    let t = self.ex[e].tpls[i].clone();
                    used.push((t.id, t.def.clone()));
                    if !t.announced {
                        self.stats.hit("data_for_unannounced_template");
                    }
                    let n = self.rng.urange(1, cfg.max_records.max(1));
                    nrecords += n;
                    let s = self.data_set(kind, &t, n);
                    sets.push(s);
                }
                if !tpl_first && !announce.is_empty() {
                    nrecords += announce.len();
                    let s = self.template_sets(kind, &announce, e, false);
                    sets.extend(s);
                    self.stats.hit("template_after_data_in_packet");
                }
                // keep inside one datagram
                let mut total = 20usize;
                let mut keep = Vec::new();
                for s in sets {
                    if total + s.len() > 60000 {
                        break;
                    }
                    total += s.len();
                    keep.push(s);
                }
                let pkt = self.assemble(e, keep, nrecords);
                if data_only && pkt.len() < 4000 {
                    let log = &mut self.ex[e].sent_data;
                    if log.len() >= 6 {
                        log.remove(0);
                    }
                    log.push((pkt.clone(), used));
                }
                pkt
            }
        }
    }

    /// All templates, then one data set per template (used by refresh timers and the heal phase)
    fn refresh_packets(&mut self, e: usize, with_data: bool) -> Vec<Vec<u8>> {
        let kind = self.ex[e].kind;
        if !matches!(kind, ExKind::V9 | ExKind::Ipfix) {
            return vec![self.emit_packet(e)];
        }
        let all: Vec<usize> = (0..self.ex[e].tpls.len()).collect();
        if all.is_empty() {
            return vec![];
        }
        let sets = self.template_sets(kind, &all, e, with_data);
        let n = all.len();
        let mut out = vec![self.assemble(e, sets, n)];
        if with_data {
            for i in all {
                let t = self.ex[e].tpls[i].clone();
                let nrec = self.rng.urange(1, 3);
                let s = self.data_set(kind, &t, nrec);
                out.push(self.assemble(e, vec![s], nrec));
            }
        }
        out
    }

    fn corrupt(&mut self, buf: &mut Vec<u8>) {
        if buf.is_empty() {
            return;
        }
        match self.rng.below(6) {
            0 | 1 => {
                let n = self.rng.urange(1, 3);
                for _ in 0..n {
                    let i = self.rng.usize_below(buf.len());
                    buf[i] ^= 1 << self.rng.below(8);
                }
            }
            2 => {
                let i = self.rng.usize_below(buf.len());
                buf[i] = self.rng.byte();
            }
            3 => {
                // tamper with a structural 16-bit field near the front (count / length / ids)
                let i = 2 * self.rng.usize_below((buf.len() / 2).min(16).max(1));
                if i + 1 < buf.len() {
                    let v = *self.rng.pick(&[0u16, 1, 3, 4, 5, 0xffff, 0x8000, 255, 256]);
                    buf[i] = (v >> 8) as u8;
                    buf[i + 1] = v as u8;
                }
            }
            4 => {
                let i = self.rng.usize_below(buf.len());
                let n = self.rng.urange(1, 8).min(buf.len() - i);
                let r = self.rng.bytes(n);
                buf[i..i + n].copy_from_slice(&r);
            }
            _ => {
                // swap two 4-byte words
                if buf.len() >= 8 {
                    let a = 4 * self.rng.usize_below(buf.len() / 4);
                    let b = 4 * self.rng.usize_below(buf.len() / 4);
                    for k in 0..4 {
                        buf.swap(a + k, b + k);
                    }
                }
            }
        }
    }

    /// The network: decides what happens to one datagram between exporter and collector.
    fn send(&mut self, e: usize, buf: Vec<u8>, faulty: bool) {
        let cfg = self.cfg;
        let p = self.ex[e].parser;
        if !faulty {
            let at = self.now + MS;
            let parts = vec![buf.len()];
            self.push(at, Act::Arrive { p, buf, parts, cut: None, faults: vec![] });
            return;
        }
        if self.now < self.ex[e].down_until {
            self.stats.hit("partition_drop");
            return;
        }
        if self.rng.permille(cfg.partition) {
            self.ex[e].down_until = self.now + self.rng.range(20, 400) * MS;
            self.stats.hit("partition");
            return;
        }
        if self.rng.permille(cfg.drop) {
            self.stats.hit("drop");
            return;
        }
        // coalescing relay: hold this datagram and deliver it glued to the following ones
        if let Some((mut held, mut parts, left)) = self.hold.remove(&p) {
            held.extend_from_slice(&buf);
            parts.push(buf.len());
            if left > 1 && held.len() < 60000 {
                self.hold.insert(p, (held, parts, left - 1));
            } else {
                self.stats.hit("coalesce");
                let at = self.now + MS;
                let mut faults = vec!["coalesce".to_string()];
                let mut cut = None;
                if held.len() > cfg.recv_buf {
                    cut = Some(cfg.recv_buf);
                    faults.push("short_recv_buffer".to_string());
                    self.stats.hit("short_recv_buffer");
                }
                self.push(at, Act::Arrive { p, buf: held, parts, cut, faults });
            }
            return;
        }
        if self.rng.permille(cfg.coalesce) {
            let n = self.rng.urange(1, 7);
            self.hold.insert(p, (buf.clone(), vec![buf.len()], n));
            return;
        }
        let mut faults = Vec::new();
        let mut buf = buf;
        let parts = vec![buf.len()];
        let mut cut = None;
        if self.rng.permille(cfg.corrupt) {
            self.corrupt(&mut buf);
            faults.push("corrupt".to_string());
            self.stats.hit("corrupt");
        }
        if buf.len() > 1 && self.rng.permille(cfg.truncate) {
            cut = Some(self.rng.urange(1, buf.len() - 1));
            faults.push("truncate".to_string());
            self.stats.hit("truncate");
        }
        if cut.is_none() && buf.len() > cfg.recv_buf {
            cut = Some(cfg.recv_buf);
            faults.push("short_recv_buffer".to_string());
            self.stats.hit("short_recv_buffer");
        }
        let mut lat = MS + self.rng.below(MS);
        if self.rng.permille(cfg.reorder) {
            lat += self.rng.range(5, 200) * MS;
            faults.push("delay".to_string());
            self.stats.hit("reorder_delay");
        }
        if self.rng.permille(cfg.dup) {
            let lat2 = lat + self.rng.range(1, 300) * MS;
            self.stats.hit("dup");
            let mut f2 = faults.clone();
            f2.push("dup".into());
            self.push(self.now + lat2, Act::Arrive { p, buf: buf.clone(), parts: parts.clone(), cut, faults: f2 });
        }
        self.push(self.now + lat, Act::Arrive { p, buf, parts, cut, faults });
    }

    fn flush_holds(&mut self) {
        let held: Vec<_> = std::mem::take(&mut self.hold).into_iter().collect();
        for (p, (buf, parts, _)) in held {
            if parts.len() > 1 {
                self.stats.hit("coalesce");
            }
            let at = self.now + MS;
            self.push(at, Act::Arrive { p, buf, parts, cut: None, faults: vec!["coalesce".into()] });
        }
    }

    pub fn run(mut self, prop: &str, run_seed: u64) -> (Trace, GenStats) {
        let cfg = self.cfg;
        for (i, k) in cfg.exporters.iter().enumerate() {
            let tpls = self.new_templates(*k);
            let source = self.rng.next_u64() as u32;
            let skew = if self.rng.permille(cfg.clock_jump) { self.rng.range(0, 1 << 33) as i64 - (1 << 32) } else { 0 };
            self.ex.push(Exporter { kind: *k, parser: cfg.parser_of[i], tpls, seq: 0, source, skew_ms: skew, down_until: 0, sent_data: Vec::new() });
            let at = self.rng.range(1, 50) * MS;
            self.push(at, Act::Emit(i));
        }
        let mut events: Vec<Ev> = Vec::new();
        let mut emitted = 0usize;
        while let Some(item) = self.q.pop() {
            self.now = item.at;
            match item.act {
                Act::Emit(e) => {
                    if emitted >= cfg.emissions {
                        continue;
                    }
                    emitted += 1;
                    if self.rng.permille(cfg.clock_jump) {
                        self.ex[e].skew_ms = self.rng.range(0, 1 << 33) as i64 - (1 << 32);
                        self.stats.hit("clock_jump");
                    }
                    if self.rng.chance(1, 15) {
                        // periodic template refresh (RFC 3954 s.9 / RFC 7011 s.8.4)
                        for b in self.refresh_packets(e, false) {
                            self.send(e, b, true);
                        }
                        self.stats.hit("template_refresh");
                    } else {
                        let b = self.emit_packet(e);
                        self.send(e, b, true);
                    }
                    if self.rng.permille(cfg.collector_restart) {
                        let at = self.now + self.rng.range(0, 20) * MS;
                        self.push(at, Act::CollectorRestart);
                    }
                    let next = self.now + self.rng.range(1, 60) * MS;
                    self.push(next, Act::Emit(e));
                }
                Act::Arrive { p, buf, parts, cut, faults } => {
                    events.push(Ev::Deliver { t: self.now, p, buf, parts, cut, faults });
                }
                Act::CollectorRestart => {
                    self.stats.hit("collector_restart");
                    events.push(Ev::Restart { t: self.now });
                }
            }
            if emitted >= cfg.emissions && !self.hold.is_empty() {
                self.flush_holds();
            }
        }
        if cfg.heal {
            // faults stop; every exporter refreshes its templates once and then sends one data
            // set per live template. Everything is delivered in order.
            self.now += 1000 * MS;
            for e in 0..self.ex.len() {
                if matches!(self.ex[e].kind, ExKind::Attacker | ExKind::Odd) {
                    continue;
                }
                for b in self.refresh_packets(e, true) {
                    self.send(e, b, false);
                }
                // the same data bytes that may have met an empty cache earlier, now that the
                // templates are there (only packets whose definitions are still current)
                let log = std::mem::take(&mut self.ex[e].sent_data);
                for (pkt, used) in log {
                    let current = used.iter().all(|(id, def)| self.ex[e].tpls.iter().any(|t| t.id == *id && t.def == *def));
                    if current {
                        self.stats.hit("same_data_bytes_redelivered");
                        let mut marked = vec![0xfe];
                        marked.extend(pkt);
                        self.send(e, marked, false);
                    }
                }
            }
            while let Some(item) = self.q.pop() {
                self.now = item.at;
                if let Act::Arrive { p, buf, parts, cut, .. } = item.act {
                    // 0xfe prefix = internal marker of a re-delivery (stripped here)
                    if buf.first() == Some(&0xfe) {
                        let b = buf[1..].to_vec();
                        let l = b.len();
                        events.push(Ev::Deliver { t: self.now, p, buf: b, parts: vec![l], cut, faults: vec!["heal".into(), "replay".into()] });
                    } else {
                        events.push(Ev::Deliver { t: self.now, p, buf, parts, cut, faults: vec!["heal".into()] });
                    }
                }
            }
            self.stats.hit("heal_phase");
        }
        let trace = Trace {
            prop: prop.to_string(),
            run_seed,
            swarm: cfg.describe(),
            parsers: cfg.parsers.clone(),
            events,
            sim_ns: self.now,
        };
        (trace, self.stats)
    }
}
