//! C16: every parse result serialises to JSON, deterministically and faithfully.

use crate::exec::*;
use crate::json::{self, J};
use netflow_parser::variable_versions::data_number::{DataNumber, FieldValue};
use netflow_parser::variable_versions::{ipfix, v9};
use netflow_parser::{NetflowPacket, NetflowParseError};
use std::io::{self, Write};

fn n<T: ToString>(x: T) -> J {
    J::Num(x.to_string())
}
fn s<T: ToString>(x: T) -> J {
    J::Str(x.to_string())
}
fn o(v: Vec<(&str, J)>) -> J {
    J::Obj(v.into_iter().map(|(k, v)| (k.to_string(), v)).collect())
}
fn bytes(b: &[u8]) -> J {
    J::Arr(b.iter().map(|x| n(*x)).collect())
}
fn tag(k: &str, v: J) -> J {
    J::Obj(vec![(k.to_string(), v)])
}

thread_local! {
    /// set when the structure holds a variant of a library enum that did not exist when this
    /// was written: its JSON cannot be predicted, the faithful comparison of that element is
    /// skipped (well-formedness, determinism and the twin comparison still apply)
    static UNPREDICTABLE: std::cell::Cell<bool> = const { std::cell::Cell::new(false) };
}
fn unpredictable() -> J {
    UNPREDICTABLE.with(|c| c.set(true));
    J::Null
}

/// f64 gets a marker the comparison resolves by re-parsing the literal
fn fv(v: &FieldValue) -> J {
    match v {
        FieldValue::String(x) => tag("String", s(x)),
        FieldValue::DataNumber(d) => tag(
            "DataNumber",
            match d {
                DataNumber::U8(x) => n(x),
                DataNumber::U16(x) => n(x),
                DataNumber::U24(x) => n(x),
                DataNumber::I24(x) => n(x),
                DataNumber::U32(x) => n(x),
                DataNumber::U64(x) => n(x),
                DataNumber::U128(x) => n(x),
                DataNumber::I32(x) => n(x),
                #[allow(unreachable_patterns)]
                _ => unpredictable(),
            },
        ),
        FieldValue::Float64(f) => tag("Float64", if f.is_finite() { J::Num(format!("f64:{}", f.to_bits())) } else { J::Null }),
        FieldValue::Duration(d) => tag("Duration", o(vec![("secs", n(d.as_secs())), ("nanos", n(d.subsec_nanos()))])),
        FieldValue::Ip4Addr(a) => tag("Ip4Addr", s(a)),
        FieldValue::Ip6Addr(a) => tag("Ip6Addr", s(a)),
        FieldValue::MacAddr(m) => tag("MacAddr", s(m)),
        FieldValue::Vec(b) => tag("Vec", bytes(b)),
        FieldValue::ProtocolType(p) => tag("ProtocolType", s(format!("{:?}", p))),
        FieldValue::Unknown(b) => tag("Unknown", bytes(b)),
        #[allow(unreachable_patterns)]
        _ => unpredictable(),
    }
}

fn expected(p: &NetflowPacket) -> J {
    match p {
        NetflowPacket::V5(x) => {
            let h = &x.header;
            tag(
                "V5",
                o(vec![
                    (
                        "header",
                        o(vec![
                            ("version", n(h.version)),
                            ("count", n(h.count)),
                            ("sys_up_time", n(h.sys_up_time)),
                            ("unix_secs", n(h.unix_secs)),
                            ("unix_nsecs", n(h.unix_nsecs)),
                            ("flow_sequence", n(h.flow_sequence)),
                            ("engine_type", n(h.engine_type)),
                            ("engine_id", n(h.engine_id)),
                            ("sampling_interval", n(h.sampling_interval)),
                        ]),
                    ),
                    (
                        "flowsets",
                        J::Arr(
                            x.flowsets
                                .iter()
                                .map(|f| {
                                    o(vec![
                                        ("src_addr", s(f.src_addr)),
                                        ("dst_addr", s(f.dst_addr)),
                                        ("next_hop", s(f.next_hop)),
                                        ("input", n(f.input)),
                                        ("output", n(f.output)),
                                        ("d_pkts", n(f.d_pkts)),
                                        ("d_octets", n(f.d_octets)),
                                        ("first", n(f.first)),
                                        ("last", n(f.last)),
                                        ("src_port", n(f.src_port)),
                                        ("dst_port", n(f.dst_port)),
                                        ("pad1", n(f.pad1)),
                                        ("tcp_flags", n(f.tcp_flags)),
                                        ("protocol_number", n(f.protocol_number)),
                                        ("protocol_type", s(format!("{:?}", f.protocol_type))),
                                        ("tos", n(f.tos)),
                                        ("src_as", n(f.src_as)),
                                        ("dst_as", n(f.dst_as)),
                                        ("src_mask", n(f.src_mask)),
                                        ("dst_mask", n(f.dst_mask)),
                                        ("pad2", n(f.pad2)),
                                    ])
                                })
                                .collect(),
                        ),
                    ),
                ]),
            )
        }
        NetflowPacket::V7(x) => {
            let h = &x.header;
            tag(
                "V7",
                o(vec![
                    (
                        "header",
                        o(vec![
                            ("version", n(h.version)),
                            ("count", n(h.count)),
                            ("sys_up_time", n(h.sys_up_time)),
                            ("unix_secs", n(h.unix_secs)),
                            ("unix_nsecs", n(h.unix_nsecs)),
                            ("flow_sequence", n(h.flow_sequence)),
                            ("reserved", n(h.reserved)),
                        ]),
                    ),
                    (
                        "flowsets",
                        J::Arr(
                            x.flowsets
                                .iter()
                                .map(|f| {
                                    o(vec![
                                        ("src_addr", s(f.src_addr)),
                                        ("dst_addr", s(f.dst_addr)),
                                        ("next_hop", s(f.next_hop)),
                                        ("input", n(f.input)),
                                        ("output", n(f.output)),
                                        ("d_pkts", n(f.d_pkts)),
                                        ("d_octets", n(f.d_octets)),
                                        ("first", n(f.first)),
                                        ("last", n(f.last)),
                                        ("src_port", n(f.src_port)),
                                        ("dst_port", n(f.dst_port)),
                                        ("flags_fields_valid", n(f.flags_fields_valid)),
                                        ("tcp_flags", n(f.tcp_flags)),
                                        ("protocol_number", n(f.protocol_number)),
                                        ("protocol_type", s(format!("{:?}", f.protocol_type))),
                                        ("tos", n(f.tos)),
                                        ("src_as", n(f.src_as)),
                                        ("dst_as", n(f.dst_as)),
                                        ("src_mask", n(f.src_mask)),
                                        ("dst_mask", n(f.dst_mask)),
                                        ("flags_fields_invalid", n(f.flags_fields_invalid)),
                                        ("router_src", s(f.router_src)),
                                    ])
                                })
                                .collect(),
                        ),
                    ),
                ]),
            )
        }
        NetflowPacket::V9(x) => {
            let h = &x.header;
            let tf = |f: &v9::TemplateField| {
                o(vec![
                    ("field_type_number", n(f.field_type_number)),
                    ("field_type", s(format!("{:?}", f.field_type))),
                    ("field_length", n(f.field_length)),
                ])
            };
            let sets = x
                .flowsets
                .iter()
                .map(|fs| {
                    let body = match &fs.body {
                        v9::FlowSetBody::Template(t) => tag(
                            "Template",
                            o(vec![(
                                "templates",
                                J::Arr(
                                    t.templates
                                        .iter()
                                        .map(|t| {
                                            o(vec![
                                                ("template_id", n(t.template_id)),
                                                ("field_count", n(t.field_count)),
                                                ("fields", J::Arr(t.fields.iter().map(tf).collect())),
                                            ])
                                        })
                                        .collect(),
                                ),
                            )]),
                        ),
                        v9::FlowSetBody::OptionsTemplate(t) => tag(
                            "OptionsTemplate",
                            o(vec![(
                                "templates",
                                J::Arr(
                                    t.templates
                                        .iter()
                                        .map(|t| {
                                            o(vec![
                                                ("template_id", n(t.template_id)),
                                                ("options_scope_length", n(t.options_scope_length)),
                                                ("options_length", n(t.options_length)),
                                                (
                                                    "scope_fields",
                                                    J::Arr(
                                                        t.scope_fields
                                                            .iter()
                                                            .map(|f| {
                                                                o(vec![
                                                                    ("field_type_number", n(f.field_type_number)),
                                                                    ("field_type", s(format!("{:?}", f.field_type))),
                                                                    ("field_length", n(f.field_length)),
                                                                ])
                                                            })
                                                            .collect(),
                                                    ),
                                                ),
                                                ("option_fields", J::Arr(t.option_fields.iter().map(tf).collect())),
                                            ])
                                        })
                                        .collect(),
                                ),
                            )]),
                        ),
                        v9::FlowSetBody::Data(d) => tag(
                            "Data",
                            o(vec![(
                                "fields",
                                J::Arr(
                                    d.fields
                                        .iter()
                                        .map(|r| {
                                            J::Obj(
                                                r.iter()
                                                    .map(|(k, (ft, v))| (k.to_string(), J::Arr(vec![s(format!("{:?}", ft)), fv(v)])))
                                                    .collect(),
                                            )
                                        })
                                        .collect(),
                                ),
                            )]),
                        ),
                        v9::FlowSetBody::OptionsData(d) => tag(
                            "OptionsData",
                            o(vec![
                                (
                                    "scope_fields",
                                    J::Arr(
                                        d.scope_fields
                                            .iter()
                                            .map(|sf| match sf {
                                                v9::ScopeDataField::System(b) => tag("System", bytes(b)),
                                                v9::ScopeDataField::Interface(b) => tag("Interface", bytes(b)),
                                                v9::ScopeDataField::LineCard(b) => tag("LineCard", bytes(b)),
                                                v9::ScopeDataField::NetFlowCache(b) => tag("NetFlowCache", bytes(b)),
                                                v9::ScopeDataField::Template(b) => tag("Template", bytes(b)),
                                                #[allow(unreachable_patterns)]
                                                _ => unpredictable(),
                                            })
                                            .collect(),
                                    ),
                                ),
                                (
                                    "options_fields",
                                    J::Arr(
                                        d.options_fields
                                            .iter()
                                            .map(|f| o(vec![("field_type", s(format!("{:?}", f.field_type))), ("field_value", bytes(&f.field_value))]))
                                            .collect(),
                                    ),
                                ),
                            ]),
                        ),
                        #[allow(unreachable_patterns)]
                        _ => unpredictable(),
                    };
                    o(vec![
                        ("header", o(vec![("flowset_id", n(fs.header.flowset_id)), ("length", n(fs.header.length))])),
                        ("body", body),
                    ])
                })
                .collect();
            tag(
                "V9",
                o(vec![
                    (
                        "header",
                        o(vec![
                            ("version", n(h.version)),
                            ("count", n(h.count)),
                            ("sys_up_time", n(h.sys_up_time)),
                            ("unix_secs", n(h.unix_secs)),
                            ("sequence_number", n(h.sequence_number)),
                            ("source_id", n(h.source_id)),
                        ]),
                    ),
                    ("flowsets", J::Arr(sets)),
                ]),
            )
        }
        NetflowPacket::IPFix(x) => {
            let h = &x.header;
            let tf = |f: &ipfix::TemplateField| {
                let mut v = vec![
                    ("field_type_number", n(f.field_type_number)),
                    ("field_type", s(format!("{:?}", f.field_type))),
                    ("field_length", n(f.field_length)),
                ];
                if let Some(e) = f.enterprise_number {
                    v.push(("enterprise_number", n(e)));
                }
                o(v)
            };
            let recs = |fields: &Vec<std::collections::BTreeMap<usize, (netflow_parser::variable_versions::ipfix_lookup::IPFixField, FieldValue)>>| {
                J::Arr(
                    fields
                        .iter()
                        .map(|r| J::Obj(r.iter().map(|(k, (ft, v))| (k.to_string(), J::Arr(vec![s(format!("{:?}", ft)), fv(v)]))).collect()))
                        .collect(),
                )
            };
            let sets = x
                .flowsets
                .iter()
                .map(|fs| {
                    let body = match &fs.body {
                        ipfix::FlowSetBody::Template(t) => tag(
                            "Template",
                            o(vec![
                                ("template_id", n(t.template_id)),
                                ("field_count", n(t.field_count)),
                                ("fields", J::Arr(t.fields.iter().map(tf).collect())),
                            ]),
                        ),
                        ipfix::FlowSetBody::OptionsTemplate(t) => tag(
                            "OptionsTemplate",
                            o(vec![
                                ("template_id", n(t.template_id)),
                                ("field_count", n(t.field_count)),
                                ("scope_field_count", n(t.scope_field_count)),
                                ("fields", J::Arr(t.fields.iter().map(tf).collect())),
                            ]),
                        ),
                        ipfix::FlowSetBody::Data(d) => tag("Data", o(vec![("fields", recs(&d.fields))])),
                        ipfix::FlowSetBody::OptionsData(d) => tag("OptionsData", o(vec![("fields", recs(&d.fields))])),
                        #[allow(unreachable_patterns)]
                        _ => unpredictable(),
                    };
                    o(vec![
                        ("header", o(vec![("header_id", n(fs.header.header_id)), ("length", n(fs.header.length))])),
                        ("body", body),
                    ])
                })
                .collect();
            tag(
                "IPFix",
                o(vec![
                    (
                        "header",
                        o(vec![
                            ("version", n(h.version)),
                            ("length", n(h.length)),
                            ("export_time", n(h.export_time)),
                            ("sequence_number", n(h.sequence_number)),
                            ("observation_domain_id", n(h.observation_domain_id)),
                        ]),
                    ),
                    ("flowsets", J::Arr(sets)),
                ]),
            )
        }
        NetflowPacket::Error(e) => {
            let err = match &e.error {
                NetflowParseError::Incomplete(m) => tag("Incomplete", s(m)),
                NetflowParseError::Partial(p) => tag(
                    "Partial",
                    o(vec![("version", n(p.version)), ("remaining", bytes(&p.remaining)), ("error", s(&p.error))]),
                ),
                NetflowParseError::UnallowedVersion(v) => tag("UnallowedVersion", n(v)),
                NetflowParseError::UnknownVersion(b) => tag("UnknownVersion", bytes(b)),
                #[allow(unreachable_patterns)]
                _ => unpredictable(),
            };
            tag("Error", o(vec![("error", err), ("remaining", bytes(&e.remaining))]))
        }
        #[allow(unreachable_patterns)]
        _ => unpredictable(),
    }
}

/// Structural equality of expected vs. parsed tree, object keys in order; returns the path of
/// the first difference.
fn same(exp: &J, got: &J, path: &mut String) -> bool {
    match (exp, got) {
        (J::Num(a), J::Num(b)) => {
            if let Some(bits) = a.strip_prefix("f64:") {
                let want = f64::from_bits(bits.parse::<u64>().unwrap());
                return b.parse::<f64>().map(|g| g.to_bits() == want.to_bits()).unwrap_or(false);
            }
            a == b
        }
        (J::Arr(a), J::Arr(b)) => {
            if a.len() != b.len() {
                path.push_str(&format!("[len {} vs {}]", a.len(), b.len()));
                return false;
            }
            for (i, (x, y)) in a.iter().zip(b.iter()).enumerate() {
                let l = path.len();
                path.push_str(&format!("[{}]", i));
                if !same(x, y, path) {
                    return false;
                }
                path.truncate(l);
            }
            true
        }
        (J::Obj(a), J::Obj(b)) => {
            if a.len() != b.len() {
                path.push_str(&format!("{{keys {:?} vs {:?}}}", a.iter().map(|x| &x.0).collect::<Vec<_>>(), b.iter().map(|x| &x.0).collect::<Vec<_>>()));
                return false;
            }
            for ((ka, va), (kb, vb)) in a.iter().zip(b.iter()) {
                if ka != kb {
                    path.push_str(&format!(".<key {} vs {}>", ka, kb));
                    return false;
                }
                let l = path.len();
                path.push_str(&format!(".{}", ka));
                if !same(va, vb, path) {
                    return false;
                }
                path.truncate(l);
            }
            true
        }
        (a, b) => a == b,
    }
}

/// JSON sink with injected short writes and EINTR, optionally a hard error at a byte offset.
struct FaultySink {
    out: Vec<u8>,
    rng: crate::rng::Rng,
    fail_at: Option<usize>,
    short: u64,
    eintr: u64,
}

impl Write for FaultySink {
    fn write(&mut self, buf: &[u8]) -> io::Result<usize> {
        if buf.is_empty() {
            return Ok(0);
        }
        if let Some(k) = self.fail_at {
            if self.out.len() + buf.len() > k {
                let take = k.saturating_sub(self.out.len());
                if take == 0 {
                    return Err(io::Error::new(io::ErrorKind::Other, "injected: no space left on device"));
                }
                self.out.extend_from_slice(&buf[..take]);
                return Ok(take);
            }
        }
        match self.rng.below(8) {
            0 => {
                self.eintr += 1;
                Err(io::Error::new(io::ErrorKind::Interrupted, "injected EINTR"))
            }
            1 | 2 | 3 => {
                let take = 1 + self.rng.usize_below(buf.len());
                if take < buf.len() {
                    self.short += 1;
                }
                self.out.extend_from_slice(&buf[..take]);
                Ok(take)
            }
            _ => {
                self.out.extend_from_slice(buf);
                Ok(buf.len())
            }
        }
    }
    fn flush(&mut self) -> io::Result<()> {
        Ok(())
    }
}

pub fn deliver(sim: &mut Sim, d: &Delivery) -> u64 {
    let Some(r) = super::primary(sim, "C16", d) else { return 3 };
    // the twin: same deliveries, different hash keys (and different insertion order of the
    // allowed set)
    let rt = match call(&mut sim.twins[d.p], d.buf) {
        Called::Ok(x) => x,
        Called::Panic(_) => {
            sim.find("ABANDON-panic", d.ev, "twin panicked".into());
            return 3;
        }
    };
    if r.len() != rt.len() {
        sim.find("C16-twin-differs", d.ev, format!("two parsers fed the same history return {} and {} elements", r.len(), rt.len()));
        return 1;
    }
    let mut seed = crate::rng::Digest::default();
    seed.bytes(d.buf);
    seed.u64(d.ev as u64);
    let mut rng = crate::rng::Rng::new(seed.finish());
    for (i, el) in r.iter().enumerate() {
        sim.stats.oracle_evals += 1;
        let s1 = match std::panic::catch_unwind(std::panic::AssertUnwindSafe(|| serde_json::to_string(el))) {
            Ok(Ok(s)) => s,
            Ok(Err(e)) => {
                sim.find("C16-serialization-failed", d.ev, format!("element {}: {}", i, e));
                return 1;
            }
            Err(_) => {
                sim.find("ABANDON-panic", d.ev, "serialization panicked (C01's business)".into());
                return 3;
            }
        };
        let s2 = serde_json::to_string(el).unwrap_or_default();
        if s1 != s2 {
            sim.find("C16-not-repeatable", d.ev, format!("element {} serialises differently the second time", i));
            return 1;
        }
        let st = serde_json::to_string(&rt[i]).unwrap_or_default();
        if s1 != st {
            sim.find("C16-twin-differs", d.ev, format!("element {}: two parsers fed the same history serialise differently", i));
            return 1;
        }
        // streaming into a sink that returns short writes and EINTR
        let mut sink = FaultySink { out: Vec::new(), rng: rng.fork(), fail_at: None, short: 0, eintr: 0 };
        match serde_json::to_writer(&mut sink, el) {
            Ok(()) => {
                if sink.out != s1.as_bytes() {
                    sim.find("C16-streaming-differs", d.ev, format!("element {}: streamed text differs from to_string under short writes / EINTR", i));
                    return 1;
                }
            }
            Err(e) => {
                sim.find("C16-streaming-failed", d.ev, format!("element {}: streaming serialization failed under short writes / EINTR: {}", i, e));
                return 1;
            }
        }
        sim.stats.probe_n("sink_short_writes", sink.short);
        sim.stats.probe_n("sink_eintr", sink.eintr);
        // hard I/O error at a random byte: must be an Err, never a panic
        if !s1.is_empty() && rng.chance(1, 4) {
            let k = rng.usize_below(s1.len());
            let mut sink = FaultySink { out: Vec::new(), rng: rng.fork(), fail_at: Some(k), short: 0, eintr: 0 };
            let res = std::panic::catch_unwind(std::panic::AssertUnwindSafe(|| serde_json::to_writer(&mut sink, el)));
            sim.stats.probe("sink_hard_error");
            match res {
                Ok(Err(_)) => {
                    if sink.out[..] != s1.as_bytes()[..sink.out.len()] {
                        sim.find("C16-partial-output-differs", d.ev, "bytes written before an I/O error are not a prefix of the full text".into());
                        return 1;
                    }
                }
                Ok(Ok(())) => {
                    sim.find("C16-io-error-swallowed", d.ev, "sink failed but serialization reported success".into());
                    return 1;
                }
                Err(_) => {
                    sim.find("C16-panic-on-io-error", d.ev, "serialization panicked on a sink error".into());
                    return 1;
                }
            }
        }
        // independent reader
        let tree = match json::parse(&s1) {
            Ok(t) => t,
            Err(e) => {
                sim.find("C16-not-well-formed", d.ev, format!("element {}: {} in {}", i, e, super::trunc(&s1, 300)));
                return 1;
            }
        };
        UNPREDICTABLE.with(|c| c.set(false));
        let exp = expected(el);
        let mut path = String::from("$");
        if UNPREDICTABLE.with(|c| c.get()) {
            sim.stats.probe("element_with_variant_unknown_to_the_simulator");
        } else if !same(&exp, &tree, &mut path) {
            sim.find("C16-json-differs-from-structure", d.ev, format!("element {}: JSON and decoded structure differ at {} ; text {}", i, path, super::trunc(&s1, 400)));
            return 1;
        }
        match el {
            NetflowPacket::Error(_) => sim.stats.probe("error_element_serialised"),
            NetflowPacket::V9(_) | NetflowPacket::IPFix(_) => {
                sim.stats.nontrivial = true;
                if s1.contains("\"Data\"") {
                    sim.stats.probe("data_records_serialised");
                }
                if s1.contains("null") {
                    sim.stats.probe("non_finite_float");
                }
                if s1.contains("\\u") || s1.contains('\u{fffd}') {
                    sim.stats.probe("escaped_or_replaced_string");
                }
            }
            _ => {}
        }
    }
    if r.is_empty() {
        2
    } else {
        0
    }
}
