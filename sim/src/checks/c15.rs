//! C15: parsing cost is bounded by input size plus output size. Measured through the heap
//! seam (counting allocator, thread-local) around each parse_bytes call:
//!   A = bytes requested, N = allocation calls, L = bytes still live after the call (the
//!   result plus cache growth), `largest` = biggest single request.
//! With B = |buffer| and T = wire size of the templates cached before/after the call:
//!   (1) A' <= 1024*B + 8*L + 256 KiB     A' = A minus the listed per-packet remainder copies
//!   (2) L  <= 1024*(B + T) + 64 KiB      (not judged while a zero-length-field template is cached)
//!   (3) largest <= 64*B + 2*L + 4*T + 16 KiB     (the additive part was 80 KiB while nom's count()
//!       pre-allocation was a listed finding; since its repair no run needs any of it)
//!   (4) scaling: the same shape at sizes n, 2n, 4n costs at most 6x (bytes and calls)
//! The constants were calibrated on the repaired tree: legitimate decoding costs up to ~720
//! heap bytes per input byte (one B-tree leaf per one-byte field) and L/B up to ~690.

use crate::alloc;
use crate::exec::*;
use crate::trace::Trace;
use netflow_parser::NetflowPacket;

/// bytes that the per-packet copy of the unparsed remainder costs (listed finding): exactly
/// the sum of the suffix lengths after each returned packet
fn remainder_copies(buf: &[u8], r: &[NetflowPacket]) -> u64 {
    let mut pos = 0usize;
    let mut sum = 0u64;
    for el in r {
        if let Some(l) = wire_len(el) {
            pos += l;
            if pos > buf.len() {
                break;
            }
            sum += (buf.len() - pos) as u64;
        }
    }
    sum
}

fn be16(b: &[u8], o: usize) -> usize {
    usize::from(b[o]) << 8 | usize::from(b[o + 1])
}

/// Lenient structural scan: how many count fields in this buffer announce more elements than
/// the bytes present can hold (each such site makes nom's `count` pre-allocate up to 64 KiB:
/// listed finding).
pub fn overannouncing_sites(buf: &[u8]) -> u64 {
    let mut sites = 0u64;
    let mut off = 0usize;
    while buf.len() >= off + 4 {
        let ver = be16(buf, off);
        match ver {
            5 | 7 => {
                let rec = if ver == 5 { 48 } else { 52 };
                let count = be16(buf, off + 2);
                if buf.len() < off + 24 + rec * count {
                    sites += 1;
                    break;
                }
                off += 24 + rec * count;
            }
            9 | 10 => {
                let (hdr, end) = if ver == 9 {
                    (20, buf.len())
                } else {
                    let l = be16(buf, off + 2).max(16);
                    (16, (off + l).min(buf.len()))
                };
                let mut pos = off + hdr;
                let mut nsets = 0usize;
                let max_sets = if ver == 9 { be16(buf, off + 2) } else { usize::MAX };
                while pos + 4 <= end && nsets < max_sets {
                    let id = be16(buf, pos);
                    let len = be16(buf, pos + 2).max(4);
                    if pos + len > end {
                        break;
                    }
                    let body = &buf[pos + 4..pos + len];
                    if ver == 9 && id == 0 {
                        // every template record of the flowset is a count site; the first
                        // over-announcing one ends the flowset
                        let mut p = 0usize;
                        while body.len() >= p + 4 {
                            let fc = be16(body, p + 2);
                            if 4 * fc > body.len() - p - 4 {
                                sites += 1;
                                break;
                            }
                            p += 4 + 4 * fc;
                        }
                    } else if ver == 9 && id == 1 {
                        let mut p = 0usize;
                        while body.len() >= p + 6 {
                            let sl = be16(body, p + 2) / 4 * 4;
                            let ol = be16(body, p + 4) / 4 * 4;
                            if sl + ol > body.len() - p - 6 {
                                sites += 2;
                                break;
                            }
                            p += 6 + sl + ol;
                        }
                    } else if ver == 10 && id == 3 && body.len() >= 6 {
                        let fc = be16(body, 2);
                        if 4 * fc > body.len() - 6 {
                            sites += 1;
                        }
                    }
                    pos += len;
                    nsets += 1;
                }
                if ver == 9 {
                    off = pos;
                } else {
                    off = end;
                }
            }
            _ => break,
        }
    }
    sites
}

pub fn deliver(sim: &mut Sim, d: &Delivery) -> u64 {
    let pre = snap(&sim.parsers[d.p]);
    // safety net: a runaway change must not take the machine down (cumulative 16 GiB per call)
    alloc::start(16 << 30);
    let called = call(&mut sim.parsers[d.p], d.buf);
    let a = alloc::stop();
    let r = match called {
        Called::Ok(r) => r,
        Called::Panic(m) => {
            sim.find("ABANDON-panic", d.ev, format!("parse_bytes panicked (C01's business): {}", m));
            return 3;
        }
    };
    sim.fed[d.p].push(d.buf.to_vec());
    sim.stats.oracle_evals += 1;
    let post = snap(&sim.parsers[d.p]);
    let b = d.buf.len() as u64;
    let l = a.live.max(0) as u64;
    let t: u64 = pre.values().chain(post.values()).map(|d| d.wire_size() as u64).sum();
    let rem = remainder_copies(d.buf, &r);
    let a_net = a.bytes.saturating_sub(rem);
    let zero_len = pre.values().chain(post.values()).any(|d| d.has_zero_len());
    sim.stats.max("A_minus_8L_over_B_x100", a_net.saturating_sub(8 * l) * 100 / (b + 1));
    if !zero_len {
        sim.stats.max("L_over_B_plus_T_x100", l * 100 / (b + t + 1));
    }
    sim.stats.max("additive_part_needed_by_bound_1", a_net.saturating_sub(1024 * b + 8 * l));
    sim.stats.max("additive_part_needed_by_bound_3", a.largest.saturating_sub(64 * b + 2 * l + 4 * t));
    sim.stats.max("additive_part_needed_by_bound_2", l.saturating_sub(1024 * (b + t)));
    sim.stats.max("largest_single_allocation", a.largest);
    sim.stats.max("bytes_allocated_in_one_call", a.bytes);

    let bound_a = 1024 * b + 8 * l + 256 * 1024;
    if a.bytes > bound_a {
        if a_net <= bound_a {
            sim.find(
                "KF-C15-remainder-copied-per-packet",
                d.ev,
                format!("{} bytes allocated for a {}-byte buffer of {} packets; {} of them are copies of the not yet parsed remainder made after every packet (quadratic in the number of packets)", a.bytes, b, r.len(), rem),
            );
        } else {
            let sites = overannouncing_sites(d.buf);
            if sites > 0 && a_net <= bound_a + sites * 66_000 {
                sim.find(
                    "KF-C15-count-preallocation",
                    d.ev,
                    format!("{} bytes allocated for a {}-byte buffer in which {} count fields announce more elements than the bytes present; each makes nom's count() pre-allocate up to 64 KiB", a.bytes, b, sites),
                );
            } else {
                sim.find(
                    "C15-allocation-not-bounded-by-input-plus-result",
                    d.ev,
                    format!("one parse_bytes call on {} bytes allocated {} bytes ({} after subtracting the listed per-packet remainder copies; {} over-announcing count sites) in {} allocations while the result and cache growth hold {} bytes; largest single allocation {}", b, a.bytes, a_net, sites, a.calls, l, a.largest),
                );
            }
        }
    }
    if l > 1024 * (b + t) + 64 * 1024 {
        if zero_len {
            sim.find(
                "KF-C15-zero-length-field-inflation",
                d.ev,
                format!("{} bytes of input (templates: {} wire bytes) yield {} bytes of result: a cached template has fields of declared length 0, every record materialises all of them", b, t, l),
            );
        } else {
            sim.find("C15-result-not-bounded-by-bytes-received", d.ev, format!("one parse_bytes call on {} bytes (cached templates: {} wire bytes) retains {} bytes of result", b, t, l));
        }
    }
    if a.largest > 64 * b + 2 * l + 4 * t + 16 * 1024 {
        sim.find(
            "C15-single-allocation-for-bytes-not-present",
            d.ev,
            format!("one parse_bytes call on {} bytes made a single allocation of {} bytes (result {} bytes, cached templates {} wire bytes)", b, a.largest, l, t),
        );
    }
    // (5) no more decoded values than the bytes of each data set can hold under the template
    // it was decoded with: records <= body / max(1, number of fields with a non-zero length)
    {
        use netflow_parser::variable_versions::{ipfix, v9};
        // definitions an id had before, after and (template sets of this very buffer) during the call
        let mut during: Vec<(crate::model::Proto, u16, crate::model::TDef)> = Vec::new();
        let mut opaque_defs = false;
        for el in &r {
            match el {
                NetflowPacket::V9(x) => {
                    for fs in &x.flowsets {
                        match &fs.body {
                            v9::FlowSetBody::Template(t) => {
                                for t in &t.templates {
                                    during.push((crate::model::Proto::V9, t.template_id, def_v9_tpl(t)));
                                }
                            }
                            v9::FlowSetBody::OptionsTemplate(t) => {
                                for t in &t.templates {
                                    during.push((crate::model::Proto::V9, t.template_id, def_v9_opt(t)));
                                }
                            }
                            _ => {}
                        }
                    }
                }
                NetflowPacket::IPFix(x) => {
                    for fs in &x.flowsets {
                        match &fs.body {
                            ipfix::FlowSetBody::Template(t) => {
                                during.push((crate::model::Proto::Ipfix, t.template_id, def_ip_tpl(t)));
                                // further records of the set are learned but reported only as
                                // padding bytes: definitions this check cannot see
                                opaque_defs |= t.padding.len() >= 4;
                            }
                            ipfix::FlowSetBody::OptionsTemplate(t) => {
                                during.push((crate::model::Proto::Ipfix, t.template_id, def_ip_opt(t)));
                                opaque_defs |= t.padding.len() >= 4;
                            }
                            _ => {}
                        }
                    }
                }
                _ => {}
            }
        }
        let tpl_of = |proto: crate::model::Proto, id: u16| -> Vec<&crate::model::TDef> {
            [false, true]
                .iter()
                .flat_map(|o| [pre.get(&(proto, *o, id)), post.get(&(proto, *o, id))])
                .flatten()
                .chain(during.iter().filter(|x| x.0 == proto && x.1 == id).map(|x| &x.2))
                .collect()
        };
        let allowed_for = |defs: &[&crate::model::TDef], body: usize, v9_data: bool| -> u64 {
            defs.iter()
                .map(|d| {
                    let fs = d.all_fields();
                    if v9_data {
                        // V9 splits a data flowset into floor(body / record size) records, the
                        // record size being the sum of the declared lengths (C04); a template
                        // without any length yields no record at all
                        let size: usize = fs.iter().map(|f| usize::from(f.len)).sum::<usize>().min(65535);
                        return if size == 0 { 0 } else { ((body / size) * fs.len()) as u64 };
                    }
                    // every field of non-zero declared length consumes at least one byte (fixed-size
                    // types may consume fewer bytes than an odd declared width, never zero); a
                    // definition without any length is never cached
                    let min: usize = fs.iter().filter(|f| f.len != 0).count();
                    if min == 0 {
                        return 0;
                    }
                    ((body / min) * fs.len()) as u64
                })
                .max()
                .unwrap_or(0)
        };
        for el in &r {
            match el {
                NetflowPacket::V9(x) => {
                    for fs in &x.flowsets {
                        if let v9::FlowSetBody::Data(dt) = &fs.body {
                            let got: u64 = dt.fields.iter().map(|m| m.len() as u64).sum();
                            let body = usize::from(fs.header.length).saturating_sub(4);
                            let allowed = allowed_for(&tpl_of(crate::model::Proto::V9, fs.header.flowset_id), body, true);
                            if got > allowed {
                                sim.find("C15-more-values-than-the-bytes-can-hold", d.ev, format!("V9 data flowset {} with a {}-byte body yields {} decoded values; its template allows at most {}", fs.header.flowset_id, body, got, allowed));
                            }
                        }
                    }
                }
                NetflowPacket::IPFix(x) => {
                    for fs in &x.flowsets {
                        let fields = match &fs.body {
                            ipfix::FlowSetBody::Data(dt) => &dt.fields,
                            ipfix::FlowSetBody::OptionsData(dt) => &dt.fields,
                            _ => continue,
                        };
                        let got: u64 = fields.iter().map(|m| m.len() as u64).sum();
                        let body = usize::from(fs.header.length).saturating_sub(4);
                        let allowed = allowed_for(&tpl_of(crate::model::Proto::Ipfix, fs.header.header_id), body, false);
                        if got > allowed && opaque_defs {
                            sim.stats.probe("value_bound_not_judged_definition_not_visible");
                        } else if got > allowed {
                            sim.find("C15-more-values-than-the-bytes-can-hold", d.ev, format!("IPFIX data set {} with a {}-byte body yields {} decoded values; its template allows at most {}", fs.header.header_id, body, got, allowed));
                        }
                    }
                }
                _ => {}
            }
        }
    }
    for f in d.faults {
        if let Some(rest) = f.strip_prefix("scale:") {
            if let Some((fam, k)) = rest.rsplit_once(':') {
                sim.scale_obs.push((fam.to_string(), k.parse().unwrap_or(0), a_net, a.calls, d.ev));
            }
        }
    }
    if b > 4096 || d.faults.iter().any(|f| f == "hostile") {
        sim.stats.nontrivial = true;
    }
    if b > 16384 {
        sim.stats.probe("call_over_16KiB");
    }
    if sim.stats.deliveries > 1 && t > 0 {
        sim.stats.probe("call_with_cached_templates");
    }
    let mut dg = crate::rng::Digest::default();
    for el in &r {
        dg.str(&dbg(el));
    }
    dg.u64(a.bytes);
    dg.u64(a.calls);
    sim.last_outcome = dg.finish().to_le_bytes().to_vec();
    if r.is_empty() {
        2
    } else {
        0
    }
}

pub fn finish(sim: &mut Sim, _trace: &Trace) {
    let obs = std::mem::take(&mut sim.scale_obs);
    let fams: std::collections::BTreeSet<String> = obs.iter().map(|o| o.0.clone()).collect();
    for fam in fams {
        let get = |k: usize| obs.iter().find(|o| o.0 == fam && o.1 == k);
        let (Some(a), Some(c)) = (get(0), get(2)) else { continue };
        sim.stats.probe("scaling_triples_judged");
        sim.stats.max(&format!("growth_x100_bytes_{}", fam), c.2 * 100 / (a.2 + 1));
        // linear cost => factor 4 between n and 4n; quadratic => 16
        if c.2 > 10 * a.2 + 128 * 1024 {
            let code = if fam.starts_with("scale_packed_") { "C15-superlinear-in-packets" } else { "C15-superlinear-in-records-or-sets" };
            sim.find(code, c.4, format!("family {}: allocation grows from {} bytes at size n to {} bytes at size 4n (linear would be 4x; remainder copies already subtracted)", fam, a.2, c.2));
        }
        if c.3 > 10 * a.3 + 256 {
            sim.find("C15-superlinear-allocation-count", c.4, format!("family {}: allocation calls grow from {} at size n to {} at size 4n", fam, a.3, c.3));
        }
    }
}
