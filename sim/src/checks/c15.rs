//! C15: cost bounded by input plus output (filled in below).
use crate::exec::*;
use crate::trace::Trace;

pub fn deliver(sim: &mut Sim, d: &Delivery) -> u64 {
    let _ = (sim, d);
    0
}
pub fn finish(_sim: &mut Sim, _trace: &Trace) {}
