//! C13: the common-flow view is a faithful projection of what was decoded.

use crate::exec::*;
use crate::model::*;
use netflow_parser::netflow_common::NetflowCommonFlowSet;
use netflow_parser::protocol::ProtocolTypes;
use netflow_parser::{NetflowPacket, NetflowParser};
use std::net::{IpAddr, Ipv4Addr, Ipv6Addr};

#[derive(Debug, Clone, PartialEq, Default)]
struct Flow {
    src_addr: Option<IpAddr>,
    dst_addr: Option<IpAddr>,
    src_port: Option<u16>,
    dst_port: Option<u16>,
    proto: Option<u8>,
    proto_name: Option<String>,
    first: Option<u32>,
    last: Option<u32>,
    src_mac: Option<String>,
    dst_mac: Option<String>,
}

fn of_lib(f: &NetflowCommonFlowSet) -> Flow {
    Flow {
        src_addr: f.src_addr,
        dst_addr: f.dst_addr,
        src_port: f.src_port,
        dst_port: f.dst_port,
        proto: f.protocol_number,
        proto_name: f.protocol_type.map(|p| format!("{:?}", p)),
        first: f.first_seen,
        last: f.last_seen,
        src_mac: f.src_mac.clone(),
        dst_mac: f.dst_mac.clone(),
    }
}

/// Acceptable values of one attribute: None = attribute must be absent; Some(list) = must be
/// present and equal one of the occurrences; `free` = not pinned by the property (field
/// present in a width the projection type cannot hold).
#[derive(Debug)]
struct Want<T> {
    vals: Vec<T>,
    free: bool,
}

impl<T> Default for Want<T> {
    fn default() -> Self {
        Want { vals: Vec::new(), free: false }
    }
}

impl<T: PartialEq + Clone> Want<T> {
    fn ok(&self, got: &Option<T>) -> bool {
        if self.free {
            return true;
        }
        match got {
            None => self.vals.is_empty(),
            Some(g) => self.vals.contains(g),
        }
    }
}

#[derive(Default, Debug)]
struct WantFlow {
    src4: Want<IpAddr>,
    src6: Want<IpAddr>,
    dst4: Want<IpAddr>,
    dst6: Want<IpAddr>,
    src_port: Want<u16>,
    dst_port: Want<u16>,
    proto: Want<u8>,
    first: Want<u32>,
    last: Want<u32>,
    src_mac: Want<String>,
    dst_mac: Want<String>,
}

/// One decoded field of a record as the LIBRARY reports it (through its pub structures): the
/// projection is judged against what was decoded, not against what should have been decoded
/// (that is C04 / C05's business).
#[derive(Debug, Clone)]
struct PF {
    typ: u16,
    ent: bool,
    val: FV,
}

fn want_of(fields: &[&PF], v9: bool) -> WantFlow {
    let mut w = WantFlow::default();
    for f in fields {
        if f.ent {
            continue;
        }
        let v = &f.val;
        match (f.typ, v) {
            (8, FV::Ip4(a)) => w.src4.vals.push(IpAddr::V4(Ipv4Addr::from(*a))),
            (12, FV::Ip4(a)) => w.dst4.vals.push(IpAddr::V4(Ipv4Addr::from(*a))),
            (27, FV::Ip6(a)) => w.src6.vals.push(IpAddr::V6(Ipv6Addr::from(*a))),
            (28, FV::Ip6(a)) => w.dst6.vals.push(IpAddr::V6(Ipv6Addr::from(*a))),
            (7, FV::U16(p)) => w.src_port.vals.push(*p),
            (7, _) => w.src_port.free = true,
            (11, FV::U16(p)) => w.dst_port.vals.push(*p),
            (11, _) => w.dst_port.free = true,
            // a number without a variant in the library's protocol type cannot be projected
            (4, FV::Proto(145)) if v9 => w.proto.free = true,
            (4, FV::Proto(b)) if v9 => w.proto.vals.push(*b),
            (4, FV::U8(b)) if !v9 => w.proto.vals.push(*b),
            (4, _) => w.proto.free = true,
            (22, FV::Dur(s, n)) if v9 => match u32::try_from(u128::from(*s) * 1000 + u128::from(*n) / 1_000_000) {
                Ok(ms) => w.first.vals.push(ms),
                Err(_) => w.first.free = true,
            },
            (21, FV::Dur(s, n)) if v9 => match u32::try_from(u128::from(*s) * 1000 + u128::from(*n) / 1_000_000) {
                Ok(ms) => w.last.vals.push(ms),
                Err(_) => w.last.free = true,
            },
            (22, FV::U32(x)) if !v9 => w.first.vals.push(*x),
            (21, FV::U32(x)) if !v9 => w.last.vals.push(*x),
            (22, _) => w.first.free = true,
            (21, _) => w.last.free = true,
            (56, FV::Mac(m)) => w.src_mac.vals.push(m.clone()),
            (80, FV::Mac(m)) => w.dst_mac.vals.push(m.clone()),
            _ => {}
        }
    }
    w
}

fn addr_ok(w4: &Want<IpAddr>, w6: &Want<IpAddr>, got: &Option<IpAddr>) -> bool {
    // "IPv4 else IPv6 variant"
    if !w4.vals.is_empty() {
        return w4.ok(got);
    }
    w6.ok(got)
}

/// Some(None) = matches; Some(Some(attr)) = first attribute that does not match
fn flow_matches(w: &WantFlow, f: &Flow) -> Option<&'static str> {
    if !addr_ok(&w.src4, &w.src6, &f.src_addr) {
        return Some("src_addr");
    }
    if !addr_ok(&w.dst4, &w.dst6, &f.dst_addr) {
        return Some("dst_addr");
    }
    if !w.src_port.ok(&f.src_port) {
        return Some("src_port");
    }
    if !w.dst_port.ok(&f.dst_port) {
        return Some("dst_port");
    }
    if !w.proto.ok(&f.proto) {
        return Some("protocol_number");
    }
    if !w.proto.free {
        // the name is the one the library's own table gives that number
        let want_name = f.proto.map(|b| format!("{:?}", ProtocolTypes::from(b)));
        if f.proto_name != want_name {
            return Some("protocol_type");
        }
    }
    if !w.first.ok(&f.first) {
        return Some("first_seen");
    }
    if !w.last.ok(&f.last) {
        return Some("last_seen");
    }
    if !w.src_mac.ok(&f.src_mac) {
        return Some("src_mac");
    }
    if !w.dst_mac.ok(&f.dst_mac) {
        return Some("dst_mac");
    }
    None
}

pub fn check(sim: &mut Sim, d: &Delivery, w: &Walk, r: &[NetflowPacket], mut base: NetflowParser) {
    let offs = offsets(d.buf, r);
    let mut concat: Vec<String> = Vec::new();
    for (i, el) in r.iter().enumerate() {
        let res = std::panic::catch_unwind(std::panic::AssertUnwindSafe(|| el.as_netflow_common()));
        let Ok(res) = res else {
            sim.find("ABANDON-panic", d.ev, "as_netflow_common panicked (C01's business)".into());
            return;
        };
        sim.stats.oracle_evals += 1;
        match (el, res) {
            (NetflowPacket::Error(_), Ok(_)) => {
                sim.find("C13-error-converted", d.ev, "an error element converted to a common structure".into());
                return;
            }
            (NetflowPacket::Error(_), Err(_)) => {}
            (_, Err(_)) => {
                sim.find("C13-packet-not-converted", d.ev, format!("element {} is a decoded packet but as_netflow_common failed", i));
                return;
            }
            (NetflowPacket::V5(x), Ok(c)) => {
                let flows: Vec<Flow> = x
                    .flowsets
                    .iter()
                    .map(|s| Flow {
                        src_addr: Some(IpAddr::V4(s.src_addr)),
                        dst_addr: Some(IpAddr::V4(s.dst_addr)),
                        src_port: Some(s.src_port),
                        dst_port: Some(s.dst_port),
                        proto: Some(s.protocol_number),
                        proto_name: Some(format!("{:?}", s.protocol_type)),
                        first: Some(s.first),
                        last: Some(s.last),
                        src_mac: None,
                        dst_mac: None,
                    })
                    .collect();
                let got: Vec<Flow> = c.flowsets.iter().map(of_lib).collect();
                if c.version != x.header.version || c.timestamp != x.header.sys_up_time || got != flows {
                    sim.find("C13-v5-projection", d.ev, format!("common view of V5 element {} differs from its own header/records", i));
                    return;
                }
                if !flows.is_empty() {
                    sim.stats.probe("v5_flows_projected");
                }
                concat.extend(c.flowsets.iter().map(|f| format!("{:?}", f)));
            }
            (NetflowPacket::V7(x), Ok(c)) => {
                let flows: Vec<Flow> = x
                    .flowsets
                    .iter()
                    .map(|s| Flow {
                        src_addr: Some(IpAddr::V4(s.src_addr)),
                        dst_addr: Some(IpAddr::V4(s.dst_addr)),
                        src_port: Some(s.src_port),
                        dst_port: Some(s.dst_port),
                        proto: Some(s.protocol_number),
                        proto_name: Some(format!("{:?}", s.protocol_type)),
                        first: Some(s.first),
                        last: Some(s.last),
                        src_mac: None,
                        dst_mac: None,
                    })
                    .collect();
                let got: Vec<Flow> = c.flowsets.iter().map(of_lib).collect();
                if c.version != x.header.version || c.timestamp != x.header.sys_up_time || got != flows {
                    sim.find("C13-v7-projection", d.ev, format!("common view of V7 element {} differs from its own header/records", i));
                    return;
                }
                if !flows.is_empty() {
                    sim.stats.probe("v7_flows_projected");
                }
                concat.extend(c.flowsets.iter().map(|f| format!("{:?}", f)));
            }
            (NetflowPacket::V9(_), Ok(c)) | (NetflowPacket::IPFix(_), Ok(c)) => {
                concat.extend(c.flowsets.iter().map(|f| format!("{:?}", f)));
                let v9 = matches!(el, NetflowPacket::V9(_));
                let (ver, ts) = match el {
                    NetflowPacket::V9(x) => (x.header.version, x.header.sys_up_time),
                    NetflowPacket::IPFix(x) => (x.header.version, x.header.export_time),
                    _ => unreachable!(),
                };
                if c.version != ver || c.timestamp != ts {
                    sim.find("C13-version-timestamp", d.ev, format!("common view of element {}: version/timestamp {} / {} instead of {} / {}", i, c.version, c.timestamp, ver, ts));
                    return;
                }
                // records as the library decoded them
                let _ = (&offs, w);
                let mut recs: Vec<Vec<PF>> = Vec::new();
                match el {
                    NetflowPacket::V9(x) => {
                        for fs in &x.flowsets {
                            if let netflow_parser::variable_versions::v9::FlowSetBody::Data(dt) = &fs.body {
                                for r in &dt.fields {
                                    recs.push(r.values().map(|(ft, v)| PF { typ: *ft as u16, ent: false, val: crate::flat::fv_of(v) }).collect());
                                }
                            }
                        }
                    }
                    NetflowPacket::IPFix(x) => {
                        use netflow_parser::variable_versions::ipfix_lookup::IPFixField;
                        for fs in &x.flowsets {
                            if let netflow_parser::variable_versions::ipfix::FlowSetBody::Data(dt) = &fs.body {
                                // the parser emits one single-entry map per field, keyed by the
                                // field's position in the template: position 0 starts a record
                                let mut first = true;
                                for m in &dt.fields {
                                    let starts = m.keys().next().map(|k| *k == 0).unwrap_or(true);
                                    if starts || first {
                                        recs.push(Vec::new());
                                        first = false;
                                    }
                                    for (ft, v) in m.values() {
                                        recs.last_mut().unwrap().push(PF { typ: *ft as u16, ent: matches!(ft, IPFixField::Enterprise | IPFixField::Unknown), val: crate::flat::fv_of(v) });
                                    }
                                }
                            }
                        }
                    }
                    _ => unreachable!(),
                }
                let pk_start = offs.as_ref().map(|o| o[i]).unwrap_or(0);
                let got: Vec<Flow> = c.flowsets.iter().map(of_lib).collect();
                // correct shape: one flow per record
                let per_record = got.len() == recs.len()
                    && recs.iter().zip(got.iter()).all(|(r, g)| {
                        let fs: Vec<&PF> = r.iter().collect();
                        flow_matches(&want_of(&fs, v9), g).is_none()
                    });
                if per_record {
                    if !recs.is_empty() {
                        sim.stats.probe("records_projected_correctly");
                        sim.stats.nontrivial = true;
                    }
                    continue;
                }
                // listed structural defect (IPFIX): one "flow" per field
                if !v9 {
                    let fields: Vec<&PF> = recs.iter().flat_map(|r| r.iter()).collect();
                    let per_field = got.len() == fields.len()
                        && fields.iter().zip(got.iter()).all(|(f, g)| flow_matches(&want_of(&[*f], false), g).is_none());
                    if per_field {
                        sim.stats.nontrivial = true;
                        sim.find("KF-C13-ipfix-one-flow-per-field", d.ev, format!("IPFIX message at offset {}: {} records with {} fields yield {} common flows, one per field", pk_start, recs.len(), fields.len(), got.len()));
                        continue;
                    }
                }
                // pin down what differs
                let mut what = format!("{} flows for {} data records", got.len(), recs.len());
                if got.len() == recs.len() {
                    for (k, (r, g)) in recs.iter().zip(got.iter()).enumerate() {
                        let fs: Vec<&PF> = r.iter().collect();
                        if let Some(attr) = flow_matches(&want_of(&fs, v9), g) {
                            what = format!("flow {}: attribute {} does not equal the decoded field of that record (flow {:?})", k, attr, g);
                            break;
                        }
                    }
                }
                sim.find("C13-projection-mismatch", d.ev, format!("common view of the v{} packet at offset {}: {}", ver, pk_start, what));
                return;
            }
            // an element kind this simulator was not written for: nothing to project against
            #[allow(unreachable_patterns)]
            (_, Ok(_)) => {}
        }
    }
    // parse_bytes_as_netflow_common_flowsets == in-order concatenation over non-error packets
    let res = std::panic::catch_unwind(std::panic::AssertUnwindSafe(|| base.parse_bytes_as_netflow_common_flowsets(d.buf)));
    if let Ok(fl) = res {
        let got: Vec<String> = fl.iter().map(|f| format!("{:?}", f)).collect();
        if got != concat {
            sim.find(
                "C13-common-flowsets-not-concatenation",
                d.ev,
                format!("parse_bytes_as_netflow_common_flowsets returns {} flows, concatenation over the returned packets has {}", got.len(), concat.len()),
            );
        }
    }
}
