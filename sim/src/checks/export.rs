//! C09 / C10: re-export of a decoded V9 / IPFIX packet reproduces the bytes it came from.
//! The expected bytes are the slice the packet occupied (located through the C02
//! decomposition). On a mismatch the model attributes it field by field: the output is
//! accepted only if it is exactly the original with exactly the substitutions a *listed*
//! known-lossy class predicts; anything else is a violation.

use crate::exec::*;
use crate::model::*;
use netflow_parser::NetflowPacket;
use std::collections::BTreeSet;

pub enum Pred {
    Bytes(Vec<u8>),
    /// to_be_bytes is predicted to fail (a listed class makes it fail)
    Fails,
}

fn enc_field(f: &MField, classes: &mut BTreeSet<&'static str>, out: &mut Vec<u8>) -> Result<(), ()> {
    if !f.prefix.is_empty() {
        classes.insert("varlen-prefix-dropped");
    }
    let mut push = |b: &[u8], class: &'static str, classes: &mut BTreeSet<&'static str>| {
        if b != &f.raw[..] {
            classes.insert(class);
        }
        out.extend_from_slice(b);
    };
    match &f.val {
        Ok(FV::I32(v)) => push(&v.to_be_bytes(), "signed-width", classes),
        Ok(FV::Str(s)) => push(s.as_bytes(), "lossy-string", classes),
        Ok(FV::Dur(secs, _)) => match u32::try_from(*secs) {
            Ok(s) => push(&s.to_be_bytes(), "duration-as-seconds", classes),
            Err(_) => {
                classes.insert("duration-overflow-export-error");
                return Err(());
            }
        },
        Ok(FV::Mac(s)) => push(s.as_bytes(), "mac-as-text", classes),
        Ok(FV::Proto(b)) => {
            let e = if *b == 145 { 255 } else { *b };
            push(&[e], "protocol-unknown-as-255", classes)
        }
        Ok(_) => out.extend_from_slice(&f.raw),
        Err(Why::Unrepresentable(_)) => {
            let mut v: i128 = if f.raw[0] & 0x80 != 0 { -1 } else { 0 };
            for b in &f.raw {
                v = (v << 8) | i128::from(*b);
            }
            push(&(v as i32).to_be_bytes(), "signed-width", classes)
        }
        Err(_) => return Err(()),
    }
    Ok(())
}

/// What the library is predicted to emit for this packet given the listed lossy classes, when
/// it returned `n_sets` of the packet's sets.
pub fn predict(buf: &[u8], pk: &MPkt, n_sets: usize) -> Option<(Pred, BTreeSet<&'static str>)> {
    let (hdr_len, sets) = match &pk.body {
        MBody::V9 { sets, .. } => (20, sets),
        MBody::Ipfix { sets, .. } => (16, sets),
        _ => return None,
    };
    let mut classes = BTreeSet::new();
    let mut out = buf[pk.start..pk.start + hdr_len].to_vec();
    let _ = n_sets;
    let mut fails = false;
    for s in sets.iter() {
        if s.tainted {
            return None;
        }
        if matches!(s.kind, MSetKind::UnknownTpl { .. }) {
            // C07: a set whose template this parser does not hold is omitted from the message,
            // so it cannot be re-exported either
            classes.insert("undecodable-set-omitted");
            continue;
        }
        out.extend_from_slice(&buf[s.off..s.off + 4]);
        let body = &buf[s.off + 4..s.off + usize::from(s.len)];
        let _ = body;
        match &s.kind {
            MSetKind::Tpls { .. } | MSetKind::V9OData { .. } => out.extend_from_slice(body),
            MSetKind::Data { recs, pad, def, .. } => {
                let _ = def;
                for r in recs.iter() {
                    for f in &r.fields {
                        if enc_field(f, &mut classes, &mut out).is_err() {
                            if classes.contains("duration-overflow-export-error") {
                                fails = true;
                            } else {
                                return None;
                            }
                        }
                    }
                }
                out.extend_from_slice(pad);
            }
            MSetKind::UnknownTpl { .. } => unreachable!(),
        }
    }
    if fails {
        return Some((Pred::Fails, classes));
    }
    Some((Pred::Bytes(out), classes))
}

pub fn check(sim: &mut Sim, prop: &str, d: &Delivery, w: &Walk, r: &[NetflowPacket]) {
    if !super::decomposes(sim, d, r) {
        return;
    }
    let Some(offs) = offsets(d.buf, r) else { return };
    for (i, el) in r.iter().enumerate() {
        let (ver, res, n_sets): (u16, _, usize) = match el {
            NetflowPacket::V9(x) if prop != "C10" => (
                9,
                std::panic::catch_unwind(std::panic::AssertUnwindSafe(|| x.to_be_bytes().map_err(|e| e.to_string()))),
                x.flowsets.len(),
            ),
            NetflowPacket::IPFix(x) if prop != "C09" => (
                10,
                std::panic::catch_unwind(std::panic::AssertUnwindSafe(|| x.to_be_bytes().map_err(|e| e.to_string()))),
                x.flowsets.len(),
            ),
            _ => continue,
        };
        let owner = if ver == 9 { "C09" } else { "C10" };
        let Ok(res) = res else {
            sim.find("ABANDON-panic", d.ev, "to_be_bytes panicked (C01's business)".into());
            return;
        };
        let len = wire_len(el).unwrap();
        let slice = &d.buf[offs[i]..offs[i] + len];
        sim.stats.oracle_evals += 1;
        if let Ok(b) = &res {
            if &b[..] == slice {
                sim.stats.probe("exact_roundtrip");
                if n_sets > 0 {
                    sim.stats.nontrivial = true;
                }
                continue;
            }
        }
        // attribute
        let mpk = if w.conformant() { w.pkts.iter().find(|p| p.start == offs[i] && p.version == ver && !(ver == 9 && p.has_unknown)) } else { None };
        let tainted = mpk
            .map(|pk| match &pk.body {
                MBody::V9 { sets, .. } | MBody::Ipfix { sets, .. } => sets.iter().any(|s| s.tainted),
                _ => false,
            })
            .unwrap_or(false);
        if tainted {
            sim.stats.probe("skipped_tainted_packet");
            continue;
        }
        let Some(pk) = mpk else {
            // No model attribution available (the delivery is not a conformant stream per the
            // model, e.g. field widths the library does not decode, or garbage). Model-free
            // rule: a returned packet that holds no value of a listed lossy class must still
            // round-trip exactly.
            match lossy_by_structure(el, &sim.parsers[d.p]) {
                Some(why) => {
                    sim.stats.probe("mismatch_not_judged_lossy_class_present");
                    let _ = why;
                }
                None => {
                    let observed = match &res {
                        Ok(b) => format!("{} bytes", b.len()),
                        Err(e) => format!("error {:?}", e),
                    };
                    sim.find(
                        &format!("{}-reexport-mismatch", if prop == "C17" { "C17" } else { owner }),
                        d.ev,
                        format!("to_be_bytes of the v{} packet at offset {} ({} bytes on the wire) gives {}; the packet holds no value of a listed lossy class (durations, MAC, replaced strings, unknown protocol, signed numbers, variable-length fields, omitted sets)", ver, offs[i], len, observed),
                    );
                    return;
                }
            }
            continue;
        };
        let observed = match &res {
            Ok(b) => format!("{} bytes", b.len()),
            Err(e) => format!("error {:?}", e),
        };
        match predict(d.buf, pk, n_sets) {
            Some((Pred::Bytes(p), classes)) if res.as_ref().ok() == Some(&p) && !classes.is_empty() => {
                sim.stats.nontrivial = true;
                for c in classes {
                    sim.find(&format!("KF-{}-reexport-{}", owner, c), d.ev, format!("re-export of the v{} packet at offset {} differs from the received bytes exactly as the listed class '{}' predicts", ver, offs[i], c));
                }
            }
            Some((Pred::Fails, classes)) if res.is_err() => {
                for c in classes {
                    if c == "duration-overflow-export-error" {
                        sim.find(&format!("KF-{}-reexport-{}", owner, c), d.ev, format!("to_be_bytes fails on the v{} packet at offset {} as the listed class '{}' predicts", ver, offs[i], c));
                    }
                }
            }
            other => {
                let pred = match &other {
                    Some((Pred::Bytes(p), c)) => format!("model predicts {} bytes with listed lossy classes {:?}", p.len(), c),
                    Some((Pred::Fails, c)) => format!("model predicts failure ({:?})", c),
                    None => "model has no prediction".to_string(),
                };
                let first_diff = match &res {
                    Ok(b) => b.iter().zip(slice.iter()).position(|(a, b)| a != b).unwrap_or(b.len().min(slice.len())),
                    Err(_) => 0,
                };
                sim.find(
                    &format!("{}-reexport-mismatch", if prop == "C17" { "C17" } else { owner }),
                    d.ev,
                    format!("to_be_bytes of the v{} packet at offset {} ({} bytes on the wire) gives {}, first difference at byte {}; {}", ver, offs[i], len, observed, first_diff, pred),
                );
                return;
            }
        }
    }
}

use netflow_parser::variable_versions::data_number::{DataNumber, FieldValue};
use netflow_parser::NetflowParser;

fn lossy_value(v: &FieldValue) -> Option<&'static str> {
    match v {
        FieldValue::Duration(_) => Some("duration"),
        FieldValue::MacAddr(_) => Some("mac"),
        FieldValue::String(s) if s.contains('\u{fffd}') => Some("replaced string"),
        FieldValue::ProtocolType(p) if crate::flat::proto_number(*p) == 145 => Some("unknown protocol"),
        FieldValue::DataNumber(DataNumber::I32(_)) | FieldValue::DataNumber(DataNumber::I24(_)) => Some("signed number"),
        _ => None,
    }
}

/// Some(reason) if the returned packet holds a value (or shape) of a listed lossy class, judged
/// from the library's own decoded structure and the parser's caches.
pub fn lossy_by_structure(el: &NetflowPacket, parser: &NetflowParser) -> Option<&'static str> {
    use netflow_parser::variable_versions::{ipfix, v9};
    match el {
        NetflowPacket::V9(x) => {
            for fs in &x.flowsets {
                if let v9::FlowSetBody::Data(d) = &fs.body {
                    for r in &d.fields {
                        for (_, (_, v)) in r {
                            if let Some(w) = lossy_value(v) {
                                return Some(w);
                            }
                        }
                    }
                }
            }
            None
        }
        NetflowPacket::IPFix(x) => {
            let total: usize = 16 + x.flowsets.iter().map(|f| usize::from(f.header.length).max(4)).sum::<usize>();
            if total != usize::from(x.header.length).max(16) {
                return Some("omitted set");
            }
            let redefines = x.flowsets.iter().any(|f| matches!(f.body, ipfix::FlowSetBody::Template(_) | ipfix::FlowSetBody::OptionsTemplate(_)));
            for fs in &x.flowsets {
                let fields = match &fs.body {
                    ipfix::FlowSetBody::Data(d) => &d.fields,
                    ipfix::FlowSetBody::OptionsData(d) => &d.fields,
                    _ => continue,
                };
                if redefines {
                    return Some("template (re)defined in the same message");
                }
                let id = fs.header.header_id;
                let varlen = parser.ipfix_parser.templates.get(&id).map(|t| t.fields.iter().any(|f| f.field_length == 65535)).unwrap_or(false)
                    || parser.ipfix_parser.options_templates.get(&id).map(|t| t.fields.iter().any(|f| f.field_length == 65535)).unwrap_or(false);
                if varlen {
                    return Some("variable-length field");
                }
                for r in fields {
                    for (_, (_, v)) in r {
                        if let Some(w) = lossy_value(v) {
                            return Some(w);
                        }
                    }
                }
            }
            None
        }
        _ => None,
    }
}
