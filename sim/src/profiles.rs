//! Swarm configuration: per property, per run, which world is simulated. Everything is drawn
//! from the run's PRNG; the drawn configuration is stored in the trace (`swarm`).

use crate::gen::{ExKind, GenStats, World, WorldCfg};
use crate::hostile;
use crate::rng::Rng;
use crate::trace::{Ev, ParserCfg, Trace};

/// Thorough tier explores deeper worlds, not only more of them (the tier is part of the swarm
/// configuration; workers inherit VERIF_TIER from the orchestrator).
pub fn thorough() -> bool {
    std::env::var("VERIF_TIER").map(|t| t == "thorough").unwrap_or(false)
}

fn base() -> WorldCfg {
    WorldCfg {
        exporters: vec![],
        parser_of: vec![],
        parsers: vec![],
        emissions: 30,
        max_templates: 4,
        max_fields: 8,
        id_space: 6,
        options: true,
        enterprise: false,
        varlen: false,
        zero_len: false,
        unknown_types: false,
        multi_tpl_sets: false,
        multi_rec_optdata: false,
        proto_any: false,
        non_utf8: false,
        signed_wide: false,
        projected_bias: false,
        wide_ids: false,
        odd_widths: false,
        max_records: 6,
        max_sets: 3,
        count_flowsets: false,
        drop: 0,
        dup: 0,
        reorder: 0,
        corrupt: 0,
        truncate: 0,
        coalesce: 0,
        redefine: 0,
        kind_switch: 0,
        exporter_restart: 0,
        collector_restart: 0,
        partition: 0,
        data_before_template: 0,
        clock_jump: 0,
        heal: false,
        recv_buf: 65535,
    }
}

fn rand_allowed(rng: &mut Rng) -> Vec<u16> {
    let mut v = Vec::new();
    for x in [5u16, 7, 9, 10] {
        if rng.chance(3, 4) {
            v.push(x);
        }
    }
    let extra = rng.below(3);
    for _ in 0..extra {
        // unknown numbers, byte-swapped known ones, and numbers that alias a known version in
        // their low bits (a bit mask or a narrowing cast would confuse them)
        v.push(*rng.pick(&[0u16, 1, 8, 11, 0xffff, 6, 2560, 2304, 21, 23, 25, 26, 261, 263, 265, 266, 0x8009, 0x800a]));
    }
    if rng.chance(1, 10) {
        v.push(rng.next_u64() as u16);
    }
    v.sort();
    v.dedup();
    v
}

fn transport_faults(c: &mut WorldCfg, rng: &mut Rng, intensity: u32) {
    // most runs enable a subset of the fault kinds
    if rng.chance(2, 3) {
        c.drop = rng.range(0, 120) as u32 * intensity / 100;
    }
    if rng.chance(1, 2) {
        c.dup = rng.range(0, 120) as u32 * intensity / 100;
    }
    if rng.chance(1, 2) {
        c.reorder = rng.range(0, 200) as u32 * intensity / 100;
    }
    if rng.chance(1, 3) {
        c.partition = rng.range(0, 30) as u32 * intensity / 100;
    }
    if rng.chance(1, 3) {
        c.collector_restart = rng.range(0, 40) as u32 * intensity / 100;
    }
    if rng.chance(1, 2) {
        c.redefine = rng.range(0, 150) as u32 * intensity / 100;
    }
    if rng.chance(1, 3) {
        c.exporter_restart = rng.range(0, 30) as u32 * intensity / 100;
    }
    if rng.chance(1, 3) {
        c.clock_jump = rng.range(0, 100) as u32;
    }
}

fn exactness_toggles(c: &mut WorldCfg, rng: &mut Rng) {
    c.enterprise = rng.chance(1, 2);
    c.varlen = rng.chance(3, 5);
    c.zero_len = rng.chance(1, 3);
    c.unknown_types = rng.chance(1, 2);
    c.non_utf8 = rng.chance(2, 5);
    // triggers of listed structural findings: off entirely in a large share of runs
    c.multi_tpl_sets = rng.chance(1, 4);
    c.multi_rec_optdata = rng.chance(1, 4);
    c.proto_any = rng.chance(1, 5);
    c.signed_wide = rng.chance(1, 5);
    c.max_fields = *rng.pick(&[3usize, 6, 12, 30, 64]);
    c.max_records = *rng.pick(&[2usize, 6, 20, 60, 200]);
    c.max_sets = rng.urange(1, 6);
    c.max_templates = rng.urange(1, 6);
    c.id_space = *rng.pick(&[2u16, 4, 8, 300]);
    c.wide_ids = rng.chance(1, 3);
    if rng.chance(1, 12) {
        // an exporter with very many live templates (cache growth, nothing may be evicted)
        c.max_templates = rng.urange(130, 400);
        c.id_space = 2000;
        c.max_fields = c.max_fields.min(6);
    }
}

fn own_parsers(c: &mut WorldCfg, rng: &mut Rng) {
    c.parser_of = (0..c.exporters.len()).collect();
    c.parsers = (0..c.exporters.len()).map(|_| ParserCfg { allowed: vec![5, 7, 9, 10], hash_seed: rng.next_u64() }).collect();
}

fn shared_parser(c: &mut WorldCfg, rng: &mut Rng) {
    c.parser_of = vec![0; c.exporters.len()];
    c.parsers = vec![ParserCfg { allowed: vec![5, 7, 9, 10], hash_seed: rng.next_u64() }];
}

fn mixed_sharing(c: &mut WorldCfg, rng: &mut Rng) {
    // some exporters share an instance (id collisions are real redefinitions there), some own one
    let n = c.exporters.len();
    let np = rng.urange(1, n);
    c.parser_of = (0..n).map(|i| if i < np { i } else { rng.usize_below(np) }).collect();
    c.parsers = (0..np).map(|_| ParserCfg { allowed: vec![5, 7, 9, 10], hash_seed: rng.next_u64() }).collect();
}

pub fn world_cfg(prop: &str, rng: &mut Rng) -> WorldCfg {
    let mut c = base();
    match prop {
        "C01" | "C15" => {
            let n = rng.urange(1, 4);
            c.exporters = (0..n).map(|_| *rng.pick(&[ExKind::V9, ExKind::Ipfix, ExKind::Attacker, ExKind::Attacker, ExKind::V5, ExKind::V7])).collect();
            if rng.chance(2, 3) {
                shared_parser(&mut c, rng);
            } else {
                mixed_sharing(&mut c, rng);
            }
            exactness_toggles(&mut c, rng);
            c.multi_tpl_sets = true;
            c.odd_widths = rng.chance(1, 2);
            c.multi_rec_optdata = true;
            c.proto_any = true;
            c.signed_wide = true;
            c.zero_len = true;
            transport_faults(&mut c, rng, 100);
            c.corrupt = *rng.pick(&[0u32, 100, 300, 600]);
            c.truncate = *rng.pick(&[0u32, 50, 200]);
            c.coalesce = *rng.pick(&[0u32, 100, 400]);
            c.count_flowsets = rng.chance(1, 2);
            c.recv_buf = *rng.pick(&[1500usize, 4096, 9000, 65535, 65535]);
            c.emissions = rng.urange(10, 120);
            if rng.chance(1, 3) {
                for p in c.parsers.iter_mut() {
                    p.allowed = rand_allowed(rng);
                }
            }
        }
        "C02" | "C16" => {
            let n = rng.urange(1, 4);
            c.exporters = (0..n).map(|_| *rng.pick(&[ExKind::V9, ExKind::Ipfix, ExKind::V5, ExKind::V7, ExKind::Attacker, ExKind::Odd])).collect();
            if rng.chance(1, 2) {
                shared_parser(&mut c, rng);
            } else {
                mixed_sharing(&mut c, rng);
            }
            exactness_toggles(&mut c, rng);
            c.proto_any = rng.chance(1, 2);
            c.signed_wide = rng.chance(1, 2);
            c.odd_widths = rng.chance(1, 3);
            transport_faults(&mut c, rng, 100);
            c.corrupt = *rng.pick(&[0u32, 0, 100, 300]);
            c.truncate = *rng.pick(&[0u32, 50, 200]);
            c.coalesce = *rng.pick(&[0u32, 200, 500]);
            c.count_flowsets = rng.chance(2, 3);
            c.data_before_template = *rng.pick(&[0u32, 100]);
            c.recv_buf = *rng.pick(&[1500usize, 4096, 9000, 65535, 65535]);
            c.emissions = rng.urange(10, 80);
            if prop == "C02" || rng.chance(1, 3) {
                for p in c.parsers.iter_mut() {
                    if rng.chance(2, 3) {
                        p.allowed = rand_allowed(rng);
                    }
                }
            }
        }
        "C04" | "C09" | "C05" | "C10" | "C13" | "C17" => {
            let kinds: &[ExKind] = match prop {
                "C04" | "C09" => &[ExKind::V9],
                "C05" | "C10" => &[ExKind::Ipfix],
                _ => &[ExKind::V9, ExKind::Ipfix, ExKind::V5, ExKind::V7],
            };
            let n = rng.urange(1, 3);
            c.exporters = (0..n).map(|_| *rng.pick(kinds)).collect();
            if rng.chance(1, 2) {
                own_parsers(&mut c, rng);
            } else {
                mixed_sharing(&mut c, rng);
            }
            exactness_toggles(&mut c, rng);
            if matches!(prop, "C09" | "C10") {
                c.odd_widths = rng.chance(1, 4);
                if rng.chance(1, 4) {
                    // whatever the parser accepts must round-trip, also from a broken sender
                    c.exporters.push(ExKind::Attacker);
                    c.parser_of.push(0);
                    c.corrupt = 100;
                }
            }
            if prop == "C13" && rng.chance(1, 3) {
                // chained buffers, some ending in an error: the flattened entry point must be
                // the concatenation over the non-error packets
                c.coalesce = 400;
                c.count_flowsets = true;
                c.data_before_template = 150;
            }
            if prop == "C13" {
                c.projected_bias = true;
                c.unknown_types = rng.chance(1, 4);
            }
            // fault-free and fault-injecting configurations are separate swarm points; only
            // faults that keep each datagram intact are used here
            if rng.chance(1, 2) {
                transport_faults(&mut c, rng, 60);
            }
            c.data_before_template = *rng.pick(&[0u32, 0, 50]);
            c.emissions = rng.urange(8, 60);
            c.heal = rng.chance(1, 2);
        }
        "C06" | "C07" => {
            let n = rng.urange(2, 4);
            c.exporters = (0..n).map(|_| *rng.pick(&[ExKind::V9, ExKind::Ipfix, ExKind::V9, ExKind::Ipfix, ExKind::V5, ExKind::V7])).collect();
            // at least one V9 and one IPFIX exporter using the same small id space
            c.exporters[0] = ExKind::V9;
            c.exporters[1] = ExKind::Ipfix;
            mixed_sharing(&mut c, rng);
            // a decoy instance that never receives traffic
            c.parsers.push(ParserCfg { allowed: vec![5, 7, 9, 10], hash_seed: rng.next_u64() });
            exactness_toggles(&mut c, rng);
            c.id_space = *rng.pick(&[1u16, 2, 3, 4]);
            c.multi_tpl_sets = rng.chance(1, 8);
            transport_faults(&mut c, rng, 100);
            c.redefine = *rng.pick(&[50u32, 150, 300]);
            c.kind_switch = *rng.pick(&[0u32, 200, 500]);
            c.data_before_template = *rng.pick(&[0u32, 100, 300]);
            if prop == "C07" {
                c.drop = c.drop.max(100);
                c.data_before_template = *rng.pick(&[100u32, 300, 500]);
                c.collector_restart = c.collector_restart.max(20);
            }
            if rng.chance(1, 3) {
                c.coalesce = 300;
                c.count_flowsets = true;
            }
            if prop == "C06" && rng.chance(1, 4) {
                c.corrupt = 100;
                c.exporters.push(ExKind::Attacker);
                c.parser_of.push(0);
            }
            if rng.chance(1, 4) {
                let k = rng.usize_below(c.parsers.len());
                c.parsers[k].allowed = rand_allowed(rng);
            }
            c.emissions = rng.urange(10, 80);
            c.heal = true;
        }
        "C11" | "C12" | "C14" => {
            let n = rng.urange(2, 5);
            let odd = prop == "C12";
            c.exporters = (0..n)
                .map(|_| {
                    if odd && rng.chance(1, 5) {
                        ExKind::Odd
                    } else {
                        *rng.pick(&[ExKind::V9, ExKind::Ipfix, ExKind::V5, ExKind::V7])
                    }
                })
                .collect();
            shared_parser(&mut c, rng);
            exactness_toggles(&mut c, rng);
            c.max_records = *rng.pick(&[2usize, 6, 20]);
            c.count_flowsets = true;
            c.coalesce = *rng.pick(&[300u32, 600, 900]);
            if rng.chance(1, 2) {
                c.drop = rng.range(0, 100) as u32;
                c.reorder = rng.range(0, 150) as u32;
                c.redefine = rng.range(0, 100) as u32;
            }
            c.data_before_template = *rng.pick(&[0u32, 0, 100]);
            if prop == "C12" {
                c.parsers[0].allowed = rand_allowed(rng);
            }
            c.emissions = rng.urange(10, 70);
        }
        _ => panic!("no profile for {}", prop),
    }
    c
}

/// Inserts truncated copies of deliveries in front of the intact ones (C14).
fn add_truncations(trace: &mut Trace, rng: &mut Rng, stats: &mut GenStats) {
    let sweep_mode = rng.chance(1, 3);
    let mut out: Vec<Ev> = Vec::new();
    let mut sweeps_left = if thorough() { 5 } else { 2 };
    let sweep_cap = if thorough() { 2000 } else { 400 };
    for ev in std::mem::take(&mut trace.events) {
        if let Ev::Deliver { t, p, buf, parts, cut: None, faults } = &ev {
            let total: usize = parts.iter().sum();
            if !parts.is_empty() && total == buf.len() && buf.len() >= 2 {
                let last_len = *parts.last().unwrap();
                let last_start = buf.len() - last_len;
                let mut cuts: Vec<usize> = Vec::new();
                if sweep_mode && sweeps_left > 0 && last_len <= sweep_cap && rng.chance(1, 4) {
                    sweeps_left -= 1;
                    cuts.extend(last_start + 1..buf.len());
                    *stats.fired.entry("truncate_sweep_all_cut_points").or_insert(0) += 1;
                } else if rng.chance(1, 2) {
                    let n = rng.urange(1, 3);
                    for _ in 0..n {
                        if last_len < 2 {
                            break;
                        }
                        let k = match rng.below(6) {
                            0 => buf.len() - 1,
                            1 => last_start + 1,
                            2 => last_start + rng.urange(1, last_len.min(24) - 1),
                            3 => buf.len() - rng.urange(1, last_len.min(8) - 1).max(1),
                            _ => last_start + rng.urange(1, last_len - 1),
                        };
                        if k > last_start && k < buf.len() {
                            cuts.push(k);
                        }
                    }
                }
                for k in cuts {
                    *stats.fired.entry("truncate").or_insert(0) += 1;
                    let mut f = faults.clone();
                    f.push("truncate".into());
                    out.push(Ev::Deliver { t: *t, p: *p, buf: buf.clone(), parts: parts.clone(), cut: Some(k), faults: f });
                }
            }
        }
        out.push(ev);
    }
    trace.events = out;
}

/// Hostile families: a template is cached first, data is decoded under it later.
fn add_families(trace: &mut Trace, rng: &mut Rng, stats: &mut GenStats, big: bool) {
    if trace.parsers.is_empty() {
        return;
    }
    let n = rng.urange(1, 3);
    for _ in 0..n {
        let p = rng.usize_below(trace.parsers.len());
        let (name, bufs) = hostile::family(rng, big);
        *stats.fired.entry(name).or_insert(0) += 1;
        let at = rng.usize_below(trace.events.len() + 1);
        let t = trace.events.get(at).map(|e| match e {
            Ev::Deliver { t, .. } | Ev::Restart { t } | Ev::Reconfigure { t, .. } | Ev::ResetCaches { t, .. } => *t,
        }).unwrap_or(trace.sim_ns);
        for (k, b) in bufs.into_iter().enumerate() {
            let len = b.len();
            trace.events.insert(
                (at + k).min(trace.events.len()),
                Ev::Deliver { t, p, buf: b, parts: vec![len], cut: None, faults: vec!["hostile".into(), name.into()] },
            );
        }
    }
}

/// The same family at sizes n, 2n, 4n, each on a parser of its own position in the trace.
fn add_scaling(trace: &mut Trace, rng: &mut Rng, stats: &mut GenStats) {
    if trace.parsers.is_empty() {
        return;
    }
    let which = *rng.pick(hostile::SCALED);
    let max_n = 60000 / hostile::unit(which) / 4;
    let n = rng.urange((max_n / 16).max(2), max_n);
    *stats.fired.entry("scaling_triple").or_insert(0) += 1;
    let p = rng.usize_below(trace.parsers.len());
    for (k, mult) in [1usize, 2, 4].iter().enumerate() {
        let bufs = hostile::scaled(rng, which, n * mult);
        let last = bufs.len() - 1;
        for (j, b) in bufs.into_iter().enumerate() {
            let len = b.len();
            let mut faults = vec!["hostile".to_string()];
            if j == last {
                faults.push(format!("scale:{}:{}", which, k));
            }
            trace.events.push(Ev::Deliver { t: trace.sim_ns, p, buf: b, parts: vec![len], cut: None, faults });
        }
    }
}

fn time_at(trace: &Trace, at: usize) -> u64 {
    trace.events.get(at).map(|e| match e {
        Ev::Deliver { t, .. } | Ev::Restart { t } | Ev::Reconfigure { t, .. } | Ev::ResetCaches { t, .. } => *t,
    }).unwrap_or(trace.sim_ns)
}

/// The caller forgets the templates of one or both protocols now and then (public fields).
fn add_cache_resets(trace: &mut Trace, rng: &mut Rng, stats: &mut GenStats) {
    if trace.parsers.is_empty() || trace.events.is_empty() || !rng.chance(1, 4) {
        return;
    }
    let n = rng.urange(1, 2);
    for _ in 0..n {
        let p = rng.usize_below(trace.parsers.len());
        // never inside the recovery phase: its deliveries assert that everything decodes
        // once faults have stopped and the templates were refreshed
        let limit = trace
            .events
            .iter()
            .position(|e| matches!(e, Ev::Deliver { faults, .. } if faults.iter().any(|f| f == "heal")))
            .unwrap_or(trace.events.len());
        let at = rng.usize_below(limit + 1);
        let t = time_at(trace, at);
        let (v9, ipfix) = *rng.pick(&[(true, false), (false, true), (true, true)]);
        trace.events.insert(at, Ev::ResetCaches { t, p, v9, ipfix });
        *stats.fired.entry("caches_reset_by_caller").or_insert(0) += 1;
    }
}

/// A buffer packed with the smallest legal packets (keep-alives: an IPFIX message without
/// sets is 16 bytes, a V9 header with count 0 is 20, V5/V7 with count 0 are 24).
fn add_tiny_bursts(trace: &mut Trace, rng: &mut Rng, stats: &mut GenStats) {
    if trace.parsers.is_empty() || !rng.chance(1, 4) {
        return;
    }
    let n = rng.urange(1, 2);
    for _ in 0..n {
        let p = rng.usize_below(trace.parsers.len());
        let at = rng.usize_below(trace.events.len() + 1);
        let t = time_at(trace, at);
        let k = rng.urange(2, 40);
        let only_ipfix = rng.chance(1, 2);
        let mut buf = Vec::new();
        let mut parts = Vec::new();
        for _ in 0..k {
            let which = if only_ipfix { 0 } else { rng.below(4) };
            let pk = match which {
                0 => crate::wire::ipfix_packet(rng.next_u64() as u32, rng.next_u64() as u32, rng.next_u64() as u32, &[]),
                1 => crate::wire::v9_packet(0, rng.next_u64() as u32, rng.next_u64() as u32, rng.next_u64() as u32, rng.next_u64() as u32, &[]),
                2 => {
                    let mut h = [0u8; 20];
                    h.copy_from_slice(&rng.bytes(20));
                    crate::wire::v5(0, &h, &[])
                }
                _ => {
                    let mut h = [0u8; 20];
                    h.copy_from_slice(&rng.bytes(20));
                    crate::wire::v7(0, &h, &[])
                }
            };
            parts.push(pk.len());
            buf.extend(pk);
        }
        trace.events.insert(at.min(trace.events.len()), Ev::Deliver { t, p, buf, parts, cut: None, faults: vec!["tiny_packet_burst".into()] });
        *stats.fired.entry("tiny_packet_burst").or_insert(0) += 1;
    }
}

/// One exporter with a very large template fleet (a core router's per-VRF / per-sampler
/// templates, a capture file of a whole site, or an attacker): 1 100 - 2 100 distinct template
/// ids announced in multi-record template sets, either as a chain of full-size messages in one
/// buffer or message by message. Nothing may be evicted, capped, forgotten or start to spin
/// afterwards. Drawn from a PRNG of its own (derived from the run's seed only), so the rest of
/// the trace is what it was before this delivery kind existed.
fn add_template_fleet(trace: &mut Trace, run_seed: u64, stats: &mut GenStats) {
    let mut rng = Rng::new(run_seed ^ 0x7e3a_f1ee_7f1e_e700);
    if trace.parsers.is_empty() || !rng.chance(1, 50) {
        return;
    }
    let p = rng.usize_below(trace.parsers.len());
    let mut at = rng.usize_below(trace.events.len() / 2 + 1);
    let t = time_at(trace, at);
    let ipfix = rng.chance(3, 4);
    let total = *rng.pick(&[1100usize, 1300, 1600, 2100]);
    let per_set = *rng.pick(&[1usize, 2, 7, 60, 400]);
    let msg_cap = *rng.pick(&[1400usize, 8000, 60000]);
    let one_buffer = rng.chance(1, 2);
    const FIELDS: [(u16, u16); 7] = [(1, 4), (2, 4), (4, 1), (7, 2), (8, 4), (11, 2), (12, 4)];
    let mut msgs: Vec<Vec<u8>> = Vec::new();
    let mut sets: Vec<Vec<u8>> = Vec::new();
    let mut size = 0usize;
    let mut body: Vec<u8> = Vec::new();
    let mut in_set = 0usize;
    let flush_msg = |sets: &mut Vec<Vec<u8>>, msgs: &mut Vec<Vec<u8>>, rng: &mut Rng| {
        if sets.is_empty() {
            return;
        }
        let pk = if ipfix {
            crate::wire::ipfix_packet(rng.next_u64() as u32, rng.next_u64() as u32, 7, sets)
        } else {
            crate::wire::v9_packet(sets.len() as u16, rng.next_u64() as u32, rng.next_u64() as u32, rng.next_u64() as u32, 7, sets)
        };
        msgs.push(pk);
        sets.clear();
    };
    for i in 0..total {
        let id = 256 + i as u16;
        let (typ, len) = *rng.pick(&FIELDS);
        crate::wire::be16(&mut body, id);
        crate::wire::be16(&mut body, 1);
        crate::wire::be16(&mut body, typ);
        crate::wire::be16(&mut body, len);
        in_set += 1;
        if in_set == per_set || i + 1 == total {
            let st = crate::wire::set(if ipfix { 2 } else { 0 }, &body, 0);
            size += st.len();
            sets.push(st);
            body.clear();
            in_set = 0;
            if size + 4 + 8 * per_set > msg_cap - 20 || i + 1 == total {
                flush_msg(&mut sets, &mut msgs, &mut rng);
                size = 0;
            }
        }
    }
    let n_msgs = msgs.len();
    if one_buffer {
        // a reassembled stream / capture file: chunks of up to ~120 KB
        let mut buf = Vec::new();
        let mut parts = Vec::new();
        for m in msgs {
            parts.push(m.len());
            buf.extend(m);
            if buf.len() > 120_000 {
                trace.events.insert(at.min(trace.events.len()), Ev::Deliver { t, p, buf: std::mem::take(&mut buf), parts: std::mem::take(&mut parts), cut: None, faults: vec!["template_fleet".into()] });
                at += 1;
            }
        }
        if !buf.is_empty() {
            trace.events.insert(at.min(trace.events.len()), Ev::Deliver { t, p, buf, parts, cut: None, faults: vec!["template_fleet".into()] });
        }
    } else {
        for m in msgs {
            let parts = vec![m.len()];
            trace.events.insert(at.min(trace.events.len()), Ev::Deliver { t, p, buf: m, parts, cut: None, faults: vec!["template_fleet".into()] });
            at += 1;
        }
    }
    *stats.fired.entry("template_fleet").or_insert(0) += 1;
    *stats.fired.entry("template_fleet_messages").or_insert(0) += n_msgs as u64;
}

/// A buffer beyond the datagram limit (a capture file, a stream reassembled by the caller):
/// one V5/V7 packet whose record block alone exceeds 64 KiB, or a long chain; sometimes behind
/// a packet that cannot be decoded, so that the final error carries more than 64 KiB.
fn add_jumbo(trace: &mut Trace, rng: &mut Rng, stats: &mut GenStats, truncations: bool) {
    if trace.parsers.is_empty() || !rng.chance(1, 8) {
        return;
    }
    let p = rng.usize_below(trace.parsers.len());
    let at = rng.usize_below(trace.events.len() + 1);
    let t = time_at(trace, at);
    let mut buf = Vec::new();
    let mut parts = Vec::new();
    let undecodable_front = rng.chance(1, 3);
    if undecodable_front {
        // V9 data for a template nobody sent: the call ends here with one error
        let pk = crate::wire::v9_packet(1, 1, 2, 3, 4, &[crate::wire::set(64999, &[1, 2, 3, 4], 0)]);
        parts.push(pk.len());
        buf.extend(pk);
    }
    let one = |rng: &mut Rng, count: usize| -> Vec<u8> {
        let mut h = [0u8; 20];
        h.copy_from_slice(&rng.bytes(20));
        if rng.chance(1, 2) {
            crate::wire::v5(count as u16, &h, &rng.bytes(count * 48))
        } else {
            crate::wire::v7(count as u16, &h, &rng.bytes(count * 52))
        }
    };
    if rng.chance(1, 2) {
        let c = rng.urange(1261, 1500);
        let pk = one(rng, c);
        parts.push(pk.len());
        buf.extend(pk);
    } else {
        let target = rng.urange(66_000, 140_000);
        while buf.len() < target {
            let c = rng.urange(1, 30);
            let pk = one(rng, c);
            parts.push(pk.len());
            buf.extend(pk);
        }
    }
    let mut evs = Vec::new();
    if truncations && !undecodable_front {
        let last_len = *parts.last().unwrap();
        let last_start = buf.len() - last_len;
        for _ in 0..3 {
            // cuts around the 64 KiB mark of the last packet and near its end
            let k = if last_len > 65_700 && rng.chance(2, 3) { last_start + rng.urange(65_400, last_len - 1) } else { last_start + rng.urange(1, last_len - 1) };
            evs.push(Ev::Deliver { t, p, buf: buf.clone(), parts: parts.clone(), cut: Some(k), faults: vec!["jumbo_buffer".into(), "truncate".into()] });
            *stats.fired.entry("truncate").or_insert(0) += 1;
        }
    }
    evs.push(Ev::Deliver { t, p, buf, parts, cut: None, faults: vec!["jumbo_buffer".into()] });
    *stats.fired.entry("jumbo_buffer_over_64KiB").or_insert(0) += 1;
    for (k, e) in evs.into_iter().enumerate() {
        trace.events.insert((at + k).min(trace.events.len()), e);
    }
}

pub fn gen_trace(prop: &str, run_seed: u64) -> (Trace, GenStats) {
    let mut rng = Rng::new(run_seed);
    let mut cfg = world_cfg(prop, &mut rng);
    if thorough() && rng.chance(1, 4) {
        // long histories: several times more emissions on the same parsers
        cfg.emissions *= rng.urange(2, 5);
    }
    let wrng = rng.fork();
    let (mut trace, mut stats) = World::new(&cfg, wrng).run(prop, run_seed);
    match prop {
        "C14" => {
            add_truncations(&mut trace, &mut rng, &mut stats);
            add_template_fleet(&mut trace, run_seed, &mut stats);
            add_tiny_bursts(&mut trace, &mut rng, &mut stats);
            add_jumbo(&mut trace, &mut rng, &mut stats, true);
        }
        "C02" | "C11" => {
            add_tiny_bursts(&mut trace, &mut rng, &mut stats);
            add_jumbo(&mut trace, &mut rng, &mut stats, false);
        }
        "C06" | "C07" => {
            add_cache_resets(&mut trace, &mut rng, &mut stats);
            if prop == "C06" {
                add_tiny_bursts(&mut trace, &mut rng, &mut stats);
            }
        }
        "C01" => {
            if rng.chance(1, 2) {
                let big = rng.chance(1, 4);
                add_families(&mut trace, &mut rng, &mut stats, big);
            }
            add_cache_resets(&mut trace, &mut rng, &mut stats);
            add_tiny_bursts(&mut trace, &mut rng, &mut stats);
            add_jumbo(&mut trace, &mut rng, &mut stats, true);
        }
        "C12" => {
            add_tiny_bursts(&mut trace, &mut rng, &mut stats);
            // the operator changes the filter of a live parser now and then
            if !trace.events.is_empty() && rng.chance(1, 2) {
                let n = rng.urange(1, 3);
                for _ in 0..n {
                    let p = rng.usize_below(trace.parsers.len());
                    let at = rng.usize_below(trace.events.len() + 1);
                    let t = trace.events.get(at).map(|e| match e {
                        Ev::Deliver { t, .. } | Ev::Restart { t } | Ev::Reconfigure { t, .. } | Ev::ResetCaches { t, .. } => *t,
                    }).unwrap_or(trace.sim_ns);
                    let allowed = rand_allowed(&mut rng);
                    trace.events.insert(at, Ev::Reconfigure { t, p, allowed });
                    *stats.fired.entry("allowed_versions_changed").or_insert(0) += 1;
                }
            }
        }
        "C15" => {
            add_families(&mut trace, &mut rng, &mut stats, true);
            add_scaling(&mut trace, &mut rng, &mut stats);
        }
        _ => {}
    }
    (trace, stats)
}
