//! The orchestrator: forks worker processes, hands out run indices, reads their journals,
//! contains crashes and hangs, classifies findings against KNOWN_FINDINGS.txt, minimises and
//! confirms violations, and writes the evidence file. It never calls the library's parser in
//! its own process.

use crate::exec::{Finding, RunStats};
use crate::trace::{Ev, ReplayFile, Violation};
use crate::{RunReport, DEFAULT_SEED};
use std::collections::{BTreeMap, BTreeSet, VecDeque};
use std::io::{BufRead, BufReader, Write};
use std::process::{Child, Command, Stdio};
use std::sync::mpsc;
use std::time::{Duration, Instant};

pub const ROOT: &str = "/verif";

/// Where evidence and replay files go: /verif, or $NFSIM_OUT for side sweeps that must not
/// touch the registered evidence.
pub fn out_dir() -> String {
    out()
}

pub fn out() -> String {
    std::env::var("NFSIM_OUT").unwrap_or_else(|_| ROOT.to_string())
}

fn arg(args: &[String], name: &str) -> Option<String> {
    args.iter().position(|a| a == name).and_then(|i| args.get(i + 1).cloned())
}

#[derive(Debug, Clone)]
pub struct Known {
    pub property: String,
    pub id: String,
    pub replay: Option<String>,
    pub desc: String,
}

pub fn load_known() -> (Vec<Known>, Vec<String>) {
    let mut known = Vec::new();
    let mut fixed = Vec::new();
    let Ok(text) = std::fs::read_to_string(format!("{}/KNOWN_FINDINGS.txt", ROOT)) else { return (known, fixed) };
    for line in text.lines() {
        let line = line.trim();
        if let Some(rest) = line.strip_prefix("known:") {
            let (head, desc) = rest.split_once("::").unwrap_or((rest, ""));
            let mut k = Known { property: String::new(), id: String::new(), replay: None, desc: desc.trim().to_string() };
            for tok in head.split_whitespace() {
                if let Some(v) = tok.strip_prefix("property=") {
                    k.property = v.to_string();
                } else if let Some(v) = tok.strip_prefix("id=") {
                    k.id = v.to_string();
                } else if let Some(v) = tok.strip_prefix("replay=") {
                    k.replay = Some(v.to_string());
                }
            }
            if !k.id.is_empty() {
                known.push(k);
            }
        } else if line.starts_with("fixed:") {
            fixed.push(line.to_string());
        }
    }
    (known, fixed)
}

/// CPU seconds (user + system, all threads) a process has consumed so far. Hang detection is
/// based on CPU time, not wall-clock time: a spinning parser accumulates CPU, a worker that is
/// merely starved on a loaded machine does not.
pub fn cpu_secs(pid: u32) -> Option<f64> {
    let s = std::fs::read_to_string(format!("/proc/{}/stat", pid)).ok()?;
    let rest = &s[s.rfind(')')? + 2..];
    let f: Vec<&str> = rest.split_whitespace().collect();
    let ut: f64 = f.get(11)?.parse().ok()?;
    let st: f64 = f.get(12)?.parse().ok()?;
    Some((ut + st) / 100.0)
}

struct Worker {
    child: Child,
    cpu_at_begin: f64,
    inflight: Option<u64>,
    chunk: Option<(u64, u64)>,
    last_activity: Instant,
    alive: bool,
}

fn spawn_worker(exe: &std::path::Path, prop: &str, seed: u64, id: usize, tx: &mpsc::Sender<(usize, String)>) -> Worker {
    let mut child = Command::new(exe)
        .args(["worker", "--prop", prop, "--verif-seed", &seed.to_string()])
        .stdin(Stdio::piped())
        .stdout(Stdio::piped())
        .stderr(Stdio::null())
        .spawn()
        .expect("spawn worker");
    let out = child.stdout.take().unwrap();
    let tx = tx.clone();
    std::thread::spawn(move || {
        let r = BufReader::new(out);
        for line in r.lines() {
            match line {
                Ok(l) => {
                    if tx.send((id, l)).is_err() {
                        return;
                    }
                }
                Err(_) => break,
            }
        }
        let _ = tx.send((id, "EOF".to_string()));
    });
    Worker { child, cpu_at_begin: 0.0, inflight: None, chunk: None, last_activity: Instant::now(), alive: true }
}

/// per run: what the cross-build comparison and the determinism proof need
#[derive(Clone, Debug, PartialEq)]
pub struct Brief {
    pub digest: u64,
    pub findings: usize,
    pub oracle_evals: u64,
    pub has_unknown_fields: bool,
}

pub struct Batch {
    /// only runs with findings are kept whole; everything else is aggregated on arrival
    pub reports: Vec<RunReport>,
    pub agg: Agg,
    pub briefs: BTreeMap<u64, Brief>,
    pub sample_seeds: Vec<u64>,
    /// (index, kind) of runs whose worker died or hung
    pub crashes: Vec<(u64, &'static str)>,
    pub wall: f64,
}

/// Runs indices [0, n) of `prop` on `workers` processes of binary `exe`.
pub const CORPUS_BASE: u64 = 1 << 40;

pub fn corpus_files(prop: &str) -> Vec<String> {
    let mut v = Vec::new();
    for dir in ["corpus", "findings"] {
        if let Ok(rd) = std::fs::read_dir(format!("{}/{}", ROOT, dir)) {
            for e in rd.flatten() {
                let p = e.path().to_string_lossy().to_string();
                if !p.ends_with(".json") {
                    continue;
                }
                // a trace is judged by the property it was recorded for
                if let Ok(t) = std::fs::read_to_string(&p) {
                    if t.contains(&format!("\"property\": \"{}\"", prop)) || t.contains(&format!("\"property\":\"{}\"", prop)) {
                        v.push(p);
                    }
                }
            }
        }
    }
    v.sort();
    v
}

pub fn run_batch(exe: &std::path::Path, prop: &str, seed: u64, n: u64, workers: usize, watchdog: Duration, deadline: Option<Instant>) -> Batch {
    run_batch_with(exe, prop, seed, n, workers, watchdog, deadline, &[])
}

#[allow(clippy::too_many_arguments)]
pub fn run_batch_with(exe: &std::path::Path, prop: &str, seed: u64, n: u64, workers: usize, watchdog: Duration, deadline: Option<Instant>, files: &[String]) -> Batch {
    let start = Instant::now();
    let (tx, rx) = mpsc::channel::<(usize, String)>();
    let chunk = ((n / (workers as u64 * 8)).max(1)).min(50);
    let mut queue: VecDeque<(u64, u64)> = VecDeque::new();
    let mut a = 0;
    while a < n {
        let b = (a + chunk).min(n);
        queue.push_back((a, b));
        a = b;
    }
    for (k, _) in files.iter().enumerate().rev() {
        queue.push_front((CORPUS_BASE + k as u64, CORPUS_BASE + k as u64 + 1));
    }
    let files: Vec<String> = files.to_vec();
    let mut ws: Vec<Worker> = Vec::new();
    let mut reports: Vec<RunReport> = Vec::new();
    let mut agg = Agg::new();
    let mut briefs: BTreeMap<u64, Brief> = BTreeMap::new();
    let mut sample_seeds: Vec<u64> = Vec::new();
    let mut first_seed: Option<u64> = None;
    let mut crashes: Vec<(u64, &'static str)> = Vec::new();
    let give = |w: &mut Worker, queue: &mut VecDeque<(u64, u64)>| {
        if let Some((a, b)) = queue.pop_front() {
            w.chunk = Some((a, b));
            w.last_activity = Instant::now();
            if let Some(si) = w.child.stdin.as_mut() {
                if a >= CORPUS_BASE {
                    let _ = writeln!(si, "FILE {} {}", a, files[(a - CORPUS_BASE) as usize]);
                } else {
                    let _ = writeln!(si, "RUN {} {}", a, b);
                }
                let _ = si.flush();
            }
        } else {
            w.chunk = None;
            if let Some(si) = w.child.stdin.as_mut() {
                let _ = writeln!(si, "QUIT");
                let _ = si.flush();
            }
        }
    };
    for id in 0..workers.min(queue.len().max(1)) {
        let mut w = spawn_worker(exe, prop, seed, id, &tx);
        give(&mut w, &mut queue);
        ws.push(w);
    }
    loop {
        if ws.iter().all(|w| !w.alive) {
            break;
        }
        match rx.recv_timeout(Duration::from_millis(500)) {
            Ok((id, line)) => {
                let w = &mut ws[id];
                w.last_activity = Instant::now();
                if let Some(rest) = line.strip_prefix("BEGIN ") {
                    w.inflight = rest.trim().parse().ok();
                    w.cpu_at_begin = cpu_secs(w.child.id()).unwrap_or(0.0);
                } else if let Some(rest) = line.strip_prefix("END ") {
                    w.inflight = None;
                    if let Ok(r) = serde_json::from_str::<RunReport>(rest) {
                        agg.add(&r);
                        briefs.insert(
                            r.index,
                            Brief {
                                digest: r.stats.digest,
                                findings: r.findings.len(),
                                oracle_evals: r.stats.oracle_evals,
                                has_unknown_fields: r.stats.probes.contains_key("unknown_field_type_value")
                                    || r.stats.probes.contains_key("unknown_field_record_with_feature_off")
                                    || r.stats.probes.contains_key("unknown_field_in_template"),
                            },
                        );
                        if r.index < CORPUS_BASE {
                            if first_seed.is_none() {
                                first_seed = Some(r.run_seed);
                            }
                            if r.stats.nontrivial && sample_seeds.len() < 3 {
                                sample_seeds.push(r.run_seed);
                            }
                        }
                        if !r.findings.is_empty() && reports.len() < 20000 {
                            reports.push(r);
                        }
                    }
                } else if line.starts_with("DONE") {
                    if deadline.map(|d| Instant::now() > d).unwrap_or(false) || crashes.len() >= 3 {
                        // out of time, or enough dead / hung workers to report: stop handing out work
                        queue.retain(|c| c.0 >= CORPUS_BASE);
                        if crashes.len() >= 3 {
                            queue.clear();
                        }
                    }
                    give(w, &mut queue);
                } else if line == "EOF" {
                    let _ = w.child.wait();
                    let crashed = w.inflight.take();
                    let chunk = w.chunk.take();
                    w.alive = false;
                    if let Some(i) = crashed.filter(|i| *i >= CORPUS_BASE) {
                        let path = files[(i - CORPUS_BASE) as usize].clone();
                        let code = if prop == "C01" { "C01-abort" } else { "ABANDON-abort" };
                        reports.push(RunReport {
                            index: i,
                            run_seed: 0,
                            findings: vec![Finding { code: code.into(), event: 0, message: format!("worker process died while replaying committed trace {}", path) }],
                            stats: RunStats::default(),
                            fired: Default::default(),
                            events: 0,
                            raw: Some(path),
                        });
                    } else if let Some(i) = crashed {
                        crashes.push((i, "abort"));
                        if let Some((_, b)) = chunk {
                            if i + 1 < b {
                                queue.push_front((i + 1, b));
                            }
                        }
                    } else if let Some(c) = chunk {
                        // died between runs
                        queue.push_front(c);
                    }
                    if crashes.len() >= 3 {
                        queue.clear();
                    }
                    if !queue.is_empty() {
                        let mut nw = spawn_worker(exe, prop, seed, id, &tx);
                        give(&mut nw, &mut queue);
                        ws[id] = nw;
                    }
                }
            }
            Err(mpsc::RecvTimeoutError::Timeout) => {}
            Err(mpsc::RecvTimeoutError::Disconnected) => break,
        }
        // watchdog: the only place a real clock is read; it influences no simulated decision
        for w in ws.iter_mut() {
            let cpu_used = cpu_secs(w.child.id()).map(|c| c - w.cpu_at_begin).unwrap_or(0.0);
            // `watchdog` is a CPU-time budget for one run; wall-clock is only a distant backstop
            if w.alive && w.inflight.is_some() && (cpu_used > watchdog.as_secs_f64() || w.last_activity.elapsed() > watchdog * 20) {
                if let Some(i) = w.inflight.take() {
                    crashes.push((i, "hang"));
                    if let Some((_, b)) = w.chunk.take() {
                        if i + 1 < b {
                            queue.push_front((i + 1, b));
                        }
                    }
                }
                let _ = w.child.kill();
            }
        }
    }
    reports.sort_by_key(|r| r.index);
    if sample_seeds.is_empty() {
        sample_seeds.extend(first_seed);
    }
    Batch { reports, agg, briefs, sample_seeds, crashes, wall: start.elapsed().as_secs_f64() }
}

fn run_with_timeout(cmd: &mut Command, secs: u64) -> Option<(Option<i32>, bool, String)> {
    run_with_limits(cmd, secs * 20, secs as f64)
}

/// Runs a child with a wall-clock backstop and a CPU-time limit (the deciding one).
fn run_with_limits(cmd: &mut Command, wall_secs: u64, cpu_limit: f64) -> Option<(Option<i32>, bool, String)> {
    let secs = wall_secs;
    let mut child = cmd.stdout(Stdio::piped()).stderr(Stdio::null()).spawn().ok()?;
    let mut out = child.stdout.take()?;
    let h = std::thread::spawn(move || {
        let mut s = String::new();
        use std::io::Read;
        let _ = out.read_to_string(&mut s);
        s
    });
    let st = Instant::now();
    loop {
        match child.try_wait() {
            Ok(Some(status)) => {
                use std::os::unix::process::ExitStatusExt;
                let s = h.join().unwrap_or_default();
                return Some((status.code(), status.signal().is_some(), s));
            }
            Ok(None) => {
                let cpu = cpu_secs(child.id()).unwrap_or(0.0);
                if st.elapsed().as_secs() > secs || cpu > cpu_limit {
                    let _ = child.kill();
                    let _ = child.wait();
                    return Some((None, false, "TIMEOUT".into()));
                }
                std::thread::sleep(Duration::from_millis(10));
            }
            Err(_) => return None,
        }
    }
}

/// Does this replay file still show its recorded finding on the current tree?
fn reproduces(exe: &std::path::Path, path: &str, code: &str) -> bool {
    let limit = if code.ends_with("-hang") { 30 } else { 120 };
    match run_with_timeout(Command::new(exe).arg("replay").arg(path), limit) {
        Some((Some(1), _, _)) => true,
        Some((_, true, _)) => code == "C01-abort",
        Some((None, false, s)) if s == "TIMEOUT" => code == "C01-hang",
        _ => false,
    }
}

fn tier_runs(prop: &str, tier: &str) -> u64 {
    // base counts, sized from measured run rates on 16 cores (base ~ 20-30 s, thorough ~ 8-15 min)
    let quick = match prop {
        "C01" => 10_000,
        "C02" => 120_000,
        "C04" => 60_000,
        "C05" => 50_000,
        "C06" => 40_000,
        "C07" => 60_000,
        "C09" => 60_000,
        "C10" => 45_000,
        "C11" => 35_000,
        "C12" => 120_000,
        "C13" => 70_000,
        "C14" => 24_000,
        "C15" => 5_000,
        "C16" => 28_000,
        "C17" => 30_000,
        _ => 8_000,
    };
    match tier {
        // the thorough worlds of C11 / C14 are several times more expensive per run (all
        // partitions up to 8 packets; cut sweeps of packets up to 2000 bytes)
        "thorough" if prop == "C11" || prop == "C14" => quick * 8,
        "thorough" => quick * 20,
        // quick: the base count takes 20-40 s; the rarest seeded change of the sensitivity
        // rounds showed in 1 of 150 runs, so there is room for 2-3x (still about a minute)
        _ if prop == "C01" || prop == "C15" => quick * 3,
        _ => quick * 2,
    }
}

fn summarize_trace(t: &crate::trace::Trace, max_events: usize) -> serde_json::Value {
    let evs: Vec<serde_json::Value> = t
        .events
        .iter()
        .take(max_events)
        .map(|e| match e {
            Ev::Restart { t } => serde_json::json!({"kind": "collector_restart", "t_ns": t}),
            Ev::ResetCaches { t, p, v9, ipfix } => serde_json::json!({"kind": "caches_reset_by_caller", "t_ns": t, "parser": p, "v9": v9, "ipfix": ipfix}),
            Ev::Reconfigure { t, p, allowed } => serde_json::json!({"kind": "allowed_versions_changed", "t_ns": t, "parser": p, "allowed": allowed}),
            Ev::Deliver { t, p, buf, parts, cut, faults } => serde_json::json!({
                "kind": "deliver", "t_ns": t, "parser": p, "bytes": buf.len(), "packets_in_buffer": parts.len(),
                "cut_at": cut, "faults": faults,
                "head": crate::trace::hex::enc(&buf[..buf.len().min(24)]),
            }),
        })
        .collect();
    serde_json::json!({
        "run_seed": t.run_seed,
        "parsers": t.parsers.iter().map(|p| serde_json::json!({"allowed": p.allowed, "hash_seed": p.hash_seed})).collect::<Vec<_>>(),
        "events_total": t.events.len(),
        "first_events": evs,
    })
}

fn nontrivial_rule(prop: &str) -> &'static str {
    match prop {
        "C01" => "a run is non-trivial if hostile or corrupted input was accepted as a packet by a parser that already held templates from earlier deliveries, or a hostile family was delivered",
        "C02" => "non-trivial: at least one delivery returned two or more elements (chained packets, or packets followed by an error)",
        "C04" | "C05" => "non-trivial: at least one data record of a conformant packet was compared field by field with the reference decode",
        "C06" => "non-trivial: the run contains at least one cache-changing conformant delivery that was compared with the reference cache",
        "C07" => "non-trivial: at least one data set arrived before its template (unknown id for that parser and protocol)",
        "C09" | "C10" => "non-trivial: at least one returned packet with one or more sets was re-exported and compared with its input slice",
        "C11" => "non-trivial: at least one coalesced delivery of >= 2 self-delimiting allowed packets was compared with its split deliveries",
        "C12" => "non-trivial: at least one buffer contained a packet whose version is excluded by the allowed set, or an allowed-but-unknown version",
        "C13" => "non-trivial: at least one V9/IPFIX data record was projected and compared with the model's projection",
        "C14" => "non-trivial: at least one truncated delivery (cut strictly inside a valid packet) was judged",
        "C15" => "non-trivial: at least one call with more than 4 KiB of input or a hostile family was measured",
        "C16" => "non-trivial: at least one V9/IPFIX element was serialised, re-read by the independent reader and compared with the structure",
        "C17" => "non-trivial: at least one data record was compared across the two feature configurations or judged by the feature-off rule",
        _ => "",
    }
}

pub struct Agg {
    pub evaluations: u64,
    pub digests: BTreeSet<u64>,
    pub nontrivial: u64,
    pub deliveries: u64,
    pub bytes: u64,
    pub restarts: u64,
    pub oracle_evals: u64,
    pub conformant: u64,
    pub panics: u64,
    pub probes: BTreeMap<String, u64>,
    pub maxes: BTreeMap<String, u64>,
    pub fired: BTreeMap<String, u64>,
    pub states: BTreeSet<u64>,
    pub trigrams: BTreeSet<u64>,
    pub sim_ns: u64,
    pub events: u64,
    pub packets: u64,
    pub errors: u64,
}

impl Agg {
    pub fn new() -> Agg {
        Agg {
            evaluations: 0,
            digests: BTreeSet::new(),
            nontrivial: 0,
            deliveries: 0,
            bytes: 0,
            restarts: 0,
            oracle_evals: 0,
            conformant: 0,
            panics: 0,
            probes: BTreeMap::new(),
            maxes: BTreeMap::new(),
            fired: BTreeMap::new(),
            states: BTreeSet::new(),
            trigrams: BTreeSet::new(),
            sim_ns: 0,
            events: 0,
            packets: 0,
            errors: 0,
        }
    }
    pub fn add(&mut self, r: &RunReport) {
        let a = self;
        let s: &RunStats = &r.stats;
        a.evaluations += 1;
        if s.nontrivial {
            a.nontrivial += 1;
            a.digests.insert(s.digest);
        }
        a.deliveries += s.deliveries;
        a.bytes += s.bytes;
        a.restarts += s.restarts;
        a.oracle_evals += s.oracle_evals;
        a.conformant += s.conformant_deliveries;
        a.panics += s.panics;
        a.packets += s.packets_returned;
        a.errors += s.errors_returned;
        for (k, v) in &s.probes {
            *a.probes.entry(k.clone()).or_insert(0) += v;
        }
        for (k, v) in &s.maxes {
            let e = a.maxes.entry(k.clone()).or_insert(0);
            if *v > *e {
                *e = *v;
            }
        }
        for (k, v) in &r.fired {
            *a.fired.entry(k.clone()).or_insert(0) += v;
        }
        if a.states.len() < 2_000_000 {
            a.states.extend(s.states.iter());
        }
        if a.trigrams.len() < 2_000_000 {
            a.trigrams.extend(s.trigrams.iter());
        }
        a.sim_ns += s.sim_ns;
        a.events += r.events as u64;
    }
}

struct Verdict {
    violations: Vec<(String, String)>, // (code, replay path)
    known_lines: Vec<String>,
    notes: Vec<String>,
}

pub fn check(args: &[String]) -> i32 {
    let Some(prop) = arg(args, "--prop") else {
        eprintln!("--prop required");
        return 2;
    };
    let tier = arg(args, "--tier").or_else(|| std::env::var("VERIF_TIER").ok()).unwrap_or_else(|| "quick".into());
    let tier = if tier == "thorough" { "thorough" } else { "quick" };
    // workers (and the trace regeneration in this process) see the same tier
    std::env::set_var("VERIF_TIER", tier);
    let seed: u64 = std::env::var("VERIF_SEED").ok().and_then(|s| s.parse().ok()).unwrap_or(DEFAULT_SEED);
    // NFSIM_RUNS: side experiments only (blame matrix of the sensitivity runs); never set by bin/check
    let runs: u64 = arg(args, "--runs")
        .and_then(|s| s.parse().ok())
        .or_else(|| std::env::var("NFSIM_RUNS").ok().and_then(|s| s.parse().ok()))
        .unwrap_or_else(|| tier_runs(&prop, tier));
    let workers: usize = arg(args, "--workers")
        .and_then(|s| s.parse().ok())
        .unwrap_or_else(|| std::thread::available_parallelism().map(|n| n.get()).unwrap_or(4));
    let off_bin = arg(args, "--off-bin");
    let exe = std::env::current_exe().expect("current exe");
    let start = Instant::now();
    let _ = std::fs::create_dir_all(format!("{}/replays/raw", out()));
    let _ = std::fs::create_dir_all(format!("{}/evidence", out()));
    // stale raw files of this property
    if let Ok(rd) = std::fs::read_dir(format!("{}/replays/raw", out())) {
        for e in rd.flatten() {
            if e.file_name().to_string_lossy().starts_with(&format!("raw-{}-", prop)) {
                let _ = std::fs::remove_file(e.path());
            }
        }
    }
    println!("nfsim check property={} tier={} VERIF_SEED={} runs={} workers={} features={}", prop, tier, seed, runs, workers, crate::features());

    let (known, fixed) = load_known();
    let mut verdict = Verdict { violations: vec![], known_lines: vec![], notes: vec![] };
    let mut known_status: BTreeMap<String, (bool, u64)> = BTreeMap::new();
    for k in known.iter().filter(|k| k.property == prop) {
        let rep = k.replay.as_ref().map(|p| reproduces(&exe, &format!("{}/{}", ROOT, p), &k.id)).unwrap_or(false);
        known_status.insert(k.id.clone(), (rep, 0));
    }

    let deadline = if tier == "quick" { Some(Instant::now() + Duration::from_secs(240)) } else { Some(Instant::now() + Duration::from_secs(3300)) };
    let corpus = corpus_files(&prop);
    let watchdog = Duration::from_secs(if prop == "C15" { 90 } else { 30 });
    let batch = run_batch_with(&exe, &prop, seed, runs, workers, watchdog, deadline, &corpus);
    let agg = &batch.agg;
    verdict.notes.push(format!("{} committed corpus / finding traces replayed under this property's oracles before the random search", corpus.len()));

    // C17: the same seeds through the binary built without the feature
    let mut c17_extra = serde_json::json!(null);
    if prop == "C17" {
        if let Some(off) = &off_bin {
            let offp = std::path::PathBuf::from(off);
            let b2 = run_batch(&offp, &prop, seed, runs, workers, watchdog, deadline);
            let mut compared = 0u64;
            let mut differing: Vec<u64> = Vec::new();
            for (idx, r) in &b2.briefs {
                if let Some(o) = batch.briefs.get(idx) {
                    // runs whose templates contain only fields the library knows
                    if !o.has_unknown_fields && !r.has_unknown_fields {
                        compared += 1;
                        if o.digest != r.digest {
                            differing.push(*idx);
                        }
                    }
                }
            }
            for idx in differing.iter().take(3) {
                let run_seed = crate::rng::derive_seed(seed, crate::prop_tag(&prop), *idx);
                let (t, _) = crate::profiles::gen_trace(&prop, run_seed);
                let path = format!("{}/replays/C17-crossbuild-{}.json", out(), run_seed);
                let rf = ReplayFile {
                    property: prop.clone(),
                    verif_seed: seed,
                    features: "both".into(),
                    violation: Violation { property: prop.clone(), code: "C17-feature-off-differs-on-known-fields".into(), event: 0, message: "per-delivery digests (decode, re-export, common view) differ between the default build and the build without parse_unknown_fields although every template field is known to the library; replay this trace with both binaries and compare the DIGEST lines".into() },
                    trace: t,
                    original_events: 0,
                };
                let _ = std::fs::write(&path, serde_json::to_string_pretty(&rf).unwrap());
                println!("violation code=C17-feature-off-differs-on-known-fields run_index={} :: decode / re-export / common-view digests differ between the two feature configurations on templates that hold only known fields", idx);
                verdict.violations.push(("C17-feature-off-differs-on-known-fields".into(), path));
            }
            // findings of the feature-off build count too
            let agg2 = &b2.agg;
            c17_extra = serde_json::json!({
                "feature_off_runs": b2.agg.evaluations,
                "cross_build_runs_compared_known_fields_only": compared,
                "cross_build_differences": differing.len(),
                "feature_off_probes": agg2.probes,
                "feature_off_abandoned": b2.crashes.len(),
            });
            classify(&prop, &b2.reports, &b2.crashes, &offp, seed, &known, &mut known_status, &mut verdict);
        } else {
            verdict.notes.push("no --off-bin given: cross-build comparison skipped".into());
        }
    }

    classify(&prop, &batch.reports, &batch.crashes, &exe, seed, &known, &mut known_status, &mut verdict);

    // determinism re-check on every run of the check: the first runs again, in other worker
    // processes at another worker count; digests (delivered bytes, results, findings, oracle
    // and allocation counts) must be identical
    let recheck_n = 300u64.min(runs);
    let b_re = run_batch(&exe, &prop, seed, recheck_n, 3, watchdog, deadline);
    let mut same = 0u64;
    let mut differ: Vec<u64> = Vec::new();
    for (i, b) in &b_re.briefs {
        match batch.briefs.get(i) {
            Some(a) if a == b => same += 1,
            Some(_) => differ.push(*i),
            None => {}
        }
    }
    if !differ.is_empty() {
        verdict.notes.push(format!("NONDETERMINISM: {} of {} re-executed runs have a different digest (first: run index {}); findings of this run may not replay", differ.len(), recheck_n, differ[0]));
    }
    let determinism = serde_json::json!({"runs_reexecuted_at_other_worker_count": recheck_n, "identical_digests": same, "different": differ.len()});

    // C01: a slice of the same seeds through the unoptimised binary (large stack frames)
    let mut dev_extra = serde_json::json!(null);
    let already_dead = verdict.violations.iter().any(|v| v.0.starts_with("C01-abort") || v.0.starts_with("C01-hang"));
    if prop == "C01" && !already_dead {
        if let Some(dev) = arg(args, "--dev-bin") {
            let devp = std::path::PathBuf::from(dev);
            let n = (runs / 8).max(200);
            let b3 = run_batch(&devp, &prop, seed, n, workers, Duration::from_secs(90), deadline);
            dev_extra = serde_json::json!({
                "profile": "opt-level=0 (dev-like frames)",
                "runs": b3.agg.evaluations,
                "deliveries": b3.agg.deliveries,
                "worker_crashes_or_hangs": b3.crashes.len(),
                "faults_fired": b3.agg.fired,
            });
            classify(&prop, &b3.reports, &b3.crashes, &devp, seed, &known, &mut known_status, &mut verdict);
        }
    }

    for k in known.iter().filter(|k| k.property == prop) {
        let (rep, hits) = known_status.get(&k.id).cloned().unwrap_or((false, 0));
        if rep || hits > 0 {
            verdict.known_lines.push(format!("KNOWN-FINDING: property={} {} ({}; committed replay {}; met {} times in this run)", prop, k.desc, k.id, if rep { "reproduces" } else { "does not reproduce" }, hits));
        } else {
            verdict.notes.push(format!("listed finding {} neither reproduces from its committed replay nor was met in this run", k.id));
        }
    }

    // samples: regenerate a few traces (generation never calls the parser)
    let mut samples = Vec::new();
    for run_seed in &batch.sample_seeds {
        let (t, _) = crate::profiles::gen_trace(&prop, *run_seed);
        samples.push(summarize_trace(&t, 6));
    }
    let wall = start.elapsed().as_secs_f64();
    let zero_probes: Vec<&str> = expected_probes(&prop).iter().filter(|p| agg.probes.get(**p).copied().unwrap_or(0) == 0 && agg.fired.get(**p).copied().unwrap_or(0) == 0).cloned().collect();
    for z in &zero_probes {
        verdict.notes.push(format!("WARNING: probe '{}' was never hit in this run", z));
    }
    let evidence = serde_json::json!({
        "property_id": prop,
        "tier": tier,
        "seed": seed,
        "level": "exploration",
        "coverage": {
            "evaluations": agg.evaluations,
            "distinct_nontrivial": agg.digests.len(),
            "rule": format!("one evaluation = one simulated world (run_seed = f(VERIF_SEED, property, run index)): exporter stubs -> seeded lossy network stub -> real NetflowParser instances, every delivery judged by the property's oracle. Distinct = distinct digest over every delivered byte and every result; {}.", nontrivial_rule(&prop)),
            "samples": samples,
            "nontrivial_runs": agg.nontrivial,
            "deliveries": agg.deliveries,
            "bytes_delivered": agg.bytes,
            "packets_returned": agg.packets,
            "error_elements_returned": agg.errors,
            "oracle_evaluations": agg.oracle_evals,
            "conformant_deliveries_per_model": agg.conformant,
            "collector_restarts": agg.restarts,
            "simulated_seconds": agg.sim_ns as f64 / 1e9,
            "runs_per_hour": if batch.wall > 0.0 { agg.evaluations as f64 / batch.wall * 3600.0 } else { 0.0 },
            "faults_fired": agg.fired,
            "probes": agg.probes,
            "maxima": agg.maxes,
            "probes_never_hit": zero_probes,
            "distinct_model_cache_states": agg.states.len(),
            "distinct_event_outcome_trigrams": agg.trigrams.len(),
            "runs_abandoned_by_library_panic_or_crash": agg.panics + batch.crashes.len() as u64,
            "known_findings_met": known_status.iter().map(|(k, v)| (k.clone(), serde_json::json!({"committed_replay_reproduces": v.0, "met_in_run": v.1}))).collect::<BTreeMap<_, _>>(),
            "fixed_entries": fixed,
            "determinism_recheck": determinism,
            "c17_cross_build": c17_extra,
            "c01_unoptimised_build_slice": dev_extra,
            "components": {
                "real_code": ["NetflowParser::parse_bytes", "V9Parser", "IPFixParser", "V5Parser", "V7Parser", "to_be_bytes (V5/V7/V9/IPFix)", "as_netflow_common", "parse_bytes_as_netflow_common_flowsets", "serde Serialize impls + serde_json serializer"],
                "stub": ["exporters", "network (delay, drop, dup, reorder, partition, truncate, corrupt, coalesce)", "UDP receive buffer", "source dispatch", "exporter clocks", "JSON sink"],
                "model": ["reference collector (framing, RFC 3954 / RFC 7011 decode, template caches, conformance classifier)"],
            },
            "build": {"profile": "opt-level=2, overflow-checks, debug-assertions, panic=unwind", "features": crate::features(), "hook": "--cfg netflow_parser_verif (seeded hasher)"},
            "notes": verdict.notes,
        },
        "assumptions": [
            "the library's public field lookup tables (field number -> name / data type) are taken as given (pinned by the repository's snapshot tests)",
            "rustc, std, serde_json's serializer, nom",
            "the harness allocator and the reference model (own code, ~2 kLOC)",
            "sampling, not enumeration: a clean batch is evidence, not proof"
        ],
        "wall_s": wall,
        "violations": verdict.violations.len(),
    });
    let ev_path = format!("{}/evidence/{}.json", out(), prop);
    let _ = std::fs::write(&ev_path, serde_json::to_string_pretty(&evidence).unwrap());

    for l in &verdict.known_lines {
        println!("{}", l);
    }
    for n in &verdict.notes {
        println!("note: {}", n);
    }
    println!(
        "runs={} nontrivial={} distinct={} deliveries={} oracle_evals={} abandoned={} wall={:.1}s",
        agg.evaluations,
        agg.nontrivial,
        agg.digests.len(),
        agg.deliveries,
        agg.oracle_evals,
        agg.panics + batch.crashes.len() as u64,
        wall
    );
    if (agg.evaluations as u64) < runs && verdict.violations.is_empty() {
        println!("note: only {} of {} runs completed before the deadline", agg.evaluations, runs);
    }
    if agg.evaluations == 0 {
        eprintln!("harness error: no run completed");
        return 2;
    }
    if verdict.violations.is_empty() {
        println!("OK property={} held on everything explored", prop);
        0
    } else {
        for (_, path) in &verdict.violations {
            println!("VIOLATION property={} replay={}", prop, path);
        }
        1
    }
}

fn expected_probes(prop: &str) -> Vec<&'static str> {
    match prop {
        "C01" => vec!["hostile_input_accepted_as_packet", "corrupt", "coalesce"],
        "C02" => vec!["multi_element_result", "packets_then_error", "stopped_at_disallowed_version", "empty_result_disallowed_first", "empty_buffer_delivered", "one_byte_buffer_delivered", "v9_flowset_length_below_4_accepted", "ipfix_length_below_16_accepted", "v9_count_exceeds_flowsets"],
        "C04" => vec!["records_compared", "options_template", "v9_options_data", "template_and_data_in_same_packet", "data_set_with_padding", "several_template_records_in_set"],
        "C05" => vec!["records_compared", "options_template", "enterprise_field", "varlen_3_byte_length_form", "ipfix_options_data", "zero_length_field_template", "data_set_with_padding"],
        "C06" => vec!["cache_changing_delivery", "redefine", "kind_switch", "collector_restart", "exporter_restart", "split_vs_coalesced_compared", "heal_delivery", "disallowed_version_delivery", "dup", "reorder_delay", "drop"],
        "C07" => vec!["v9_data_for_unknown_template", "ipfix_data_for_unknown_template", "unknown_template_after_earlier_packets", "recovery_delivery", "recovered_sets_decoded", "same_data_bytes_redelivered_after_template"],
        "C09" | "C10" => vec!["exact_roundtrip"],
        "C11" => vec!["chained_delivery", "chain_with_3plus_versions", "chain_with_failing_member"],
        "C12" => vec!["excluded_member_present", "excluded_member_after_reported_ones", "allowed_unknown_version"],
        "C13" => vec!["records_projected_correctly", "v5_flows_projected", "v7_flows_projected"],
        "C14" => vec!["truncated_v5", "truncated_v7", "truncated_v9", "truncated_v10", "truncated_after_intact_packets", "cut_one_byte_short", "truncate_sweep_all_cut_points"],
        "C16" => vec!["data_records_serialised", "error_element_serialised", "sink_short_writes", "sink_eintr", "sink_hard_error", "non_finite_float"],
        _ => vec![],
    }
}

#[allow(clippy::too_many_arguments)]
fn classify(
    prop: &str,
    reports: &[RunReport],
    crashes: &[(u64, &'static str)],
    exe: &std::path::Path,
    seed: u64,
    known: &[Known],
    known_status: &mut BTreeMap<String, (bool, u64)>,
    verdict: &mut Verdict,
) {
    // code -> (count, first raw path, first finding)
    let mut by_code: BTreeMap<String, (u64, Option<String>, Finding)> = BTreeMap::new();
    for r in reports {
        for f in &r.findings {
            let e = by_code.entry(f.code.clone()).or_insert((0, None, f.clone()));
            e.0 += 1;
            if e.1.is_none() && r.findings.first().map(|x| x.code == f.code).unwrap_or(false) {
                e.1 = r.raw.clone();
            }
            if e.1.is_none() {
                e.1 = r.raw.clone();
            }
        }
    }
    // crashed / hung runs: pin the event with a trace-mode run, then build the raw file here
    // one run per kind is pinned and minimised
    let mut kinds_seen: Vec<&str> = Vec::new();
    for (idx, kind) in crashes.iter().filter(|c| c.0 < CORPUS_BASE) {
        if kinds_seen.contains(kind) {
            continue;
        }
        kinds_seen.push(kind);
        let code = if prop == "C01" { format!("C01-{}", kind) } else { format!("ABANDON-{}", kind) };
        let run_seed = crate::rng::derive_seed(seed, crate::prop_tag(prop), *idx);
        let (t, _) = crate::profiles::gen_trace(prop, run_seed);
        let res = run_with_timeout(Command::new(exe).args(["one", "--prop", prop, "--verif-seed", &seed.to_string(), "--index", &idx.to_string()]), if *kind == "hang" { 20 } else { 120 });
        let last_ev = res
            .as_ref()
            .and_then(|(_, _, s)| s.lines().filter(|l| l.starts_with("EV ")).last().and_then(|l| l.split_whitespace().nth(2)).and_then(|x| x.parse::<usize>().ok()))
            .unwrap_or(0);
        let path = format!("{}/replays/raw/raw-{}-{}.json", out(), prop, run_seed);
        let rf = ReplayFile {
            property: prop.to_string(),
            verif_seed: seed,
            features: crate::features().into(),
            violation: Violation {
                property: prop.to_string(),
                code: code.clone(),
                event: last_ev,
                message: format!("worker process {} while parse_bytes (or the smoke calls on its result) ran for event {} on a 2 MiB stack (stack overflow, abort or non-termination)", if *kind == "hang" { "made no progress for the watchdog period" } else { "was killed by a signal" }, last_ev),
            },
            trace: t,
            original_events: 0,
        };
        let _ = std::fs::write(&path, serde_json::to_string(&rf).unwrap());
        let f = Finding { code: code.clone(), event: last_ev, message: rf.violation.message.clone() };
        let e = by_code.entry(code).or_insert((0, Some(path.clone()), f));
        e.0 += 1;
    }
    let mut shown = 0;
    for (code, (count, raw, f)) in by_code {
        if code.starts_with("ABANDON-") {
            verdict.notes.push(format!("{} runs abandoned ({}): {} — see C01", count, code, super::checks::trunc(&f.message, 160)));
            continue;
        }
        if code.starts_with("KF-") {
            if let Some(k) = known.iter().find(|k| k.id == code) {
                let e = known_status.entry(k.id.clone()).or_insert((false, 0));
                e.1 += count;
                continue;
            }
            // a predicted-defective form that is not (or no longer) listed is a violation
        }
        if shown >= 12 {
            verdict.notes.push(format!("further finding code {} ({} runs) not minimised", code, count));
            continue;
        }
        shown += 1;
        let Some(raw) = raw else {
            verdict.notes.push(format!("finding {} has no raw trace", code));
            continue;
        };
        // the raw file records the first finding of its run; point it at this code
        let out = format!("{}/replays/{}-{}.json", out(), prop, code);
        let mut ok = false;
        if let Ok(text) = std::fs::read_to_string(&raw) {
            if let Ok(mut rf) = serde_json::from_str::<ReplayFile>(&text) {
                rf.violation.code = code.clone();
                rf.violation.message = f.message.clone();
                rf.violation.event = f.event;
                let tmp = format!("{}.retag", raw);
                let _ = std::fs::write(&tmp, serde_json::to_string(&rf).unwrap());
                let sub = code == "C01-abort" || code == "C01-hang";
                let mut cmd = Command::new(exe);
                cmd.arg("shrink").arg(&tmp).arg(&out);
                if sub {
                    cmd.arg("--subprocess");
                }
                let r = run_with_timeout(&mut cmd, 400);
                let _ = std::fs::remove_file(&tmp);
                if matches!(r, Some((Some(0), _, _))) {
                    ok = true;
                } else {
                    // shrinking failed: keep the unshrunk trace
                    let _ = std::fs::write(&out, serde_json::to_string_pretty(&rf).unwrap());
                    ok = true;
                }
            }
        }
        if !ok {
            verdict.notes.push(format!("could not write replay for {}", code));
            continue;
        }
        // record which binary found it, so that bin/replay uses the same one
        if exe.to_string_lossy().contains("stackdev") {
            if let Ok(text) = std::fs::read_to_string(&out) {
                if let Ok(mut rf) = serde_json::from_str::<ReplayFile>(&text) {
                    if !rf.features.contains("stackdev") {
                        rf.features = format!("{}+stackdev(opt-level=0)", rf.features);
                        let _ = std::fs::write(&out, serde_json::to_string_pretty(&rf).unwrap());
                    }
                }
            }
        }
        // confirmation run in a fresh process
        if reproduces(exe, &out, &code) {
            println!("violation code={} runs={} :: {}", code, count, super::checks::trunc(&f.message, 600));
            verdict.violations.push((code, out));
        } else {
            // A violation is only reported after its replay file reproduced it in a fresh process.
            // Fall back to the unminimised trace before giving up.
            let raw_out = format!("{}/replays/{}-{}-unminimised.json", out_dir(), prop, code);
            let mut confirmed_raw = false;
            if let Ok(text) = std::fs::read_to_string(&raw) {
                if let Ok(mut rf) = serde_json::from_str::<ReplayFile>(&text) {
                    rf.violation.code = code.clone();
                    rf.violation.message = f.message.clone();
                    rf.violation.event = f.event;
                    let _ = std::fs::write(&raw_out, serde_json::to_string(&rf).unwrap());
                    confirmed_raw = reproduces(exe, &raw_out, &code);
                }
            }
            if confirmed_raw {
                println!("violation code={} runs={} (minimisation did not hold; unminimised trace) :: {}", code, count, super::checks::trunc(&f.message, 600));
                verdict.violations.push((code, raw_out));
            } else {
                verdict.notes.push(format!("UNCONFIRMED: finding {} ({} runs) did not reproduce from its replay file in a fresh process; not reported as a violation", code, count));
            }
        }
    }
}

pub fn build_failure(args: &[String]) -> i32 {
    // nfsim build-failure <log file>: the feature-off library build failed; that is the violation
    let log = args.first().cloned().unwrap_or_default();
    let text = std::fs::read_to_string(&log).unwrap_or_default();
    let seed: u64 = std::env::var("VERIF_SEED").ok().and_then(|s| s.parse().ok()).unwrap_or(DEFAULT_SEED);
    let tier = std::env::var("VERIF_TIER").unwrap_or_else(|_| "quick".into());
    let tier = if tier == "thorough" { "thorough" } else { "quick" };
    let _ = std::fs::create_dir_all(format!("{}/replays", out()));
    let path = format!("{}/replays/C17-build-failure.json", out());
    let errors: Vec<&str> = text.lines().filter(|l| l.starts_with("error")).collect();
    let _ = std::fs::write(
        &path,
        serde_json::to_string_pretty(&serde_json::json!({
            "property": "C17",
            "violation": {"code": "C17-feature-off-does-not-build", "message": "cargo build --no-default-features of the library failed"},
            "replay": "cd /repo && cargo build --offline --no-default-features",
            "compiler_output": text,
        }))
        .unwrap(),
    );
    let evidence = serde_json::json!({
        "property_id": "C17", "tier": tier, "seed": seed, "level": "exploration",
        "coverage": {"evaluations": 1, "distinct_nontrivial": 0, "rule": "the feature-off build is the first configuration explored; it does not compile, so no run was possible", "samples": [errors],
        },
        "assumptions": [], "wall_s": 0.0, "violations": 1,
    });
    let _ = std::fs::create_dir_all(format!("{}/evidence", out()));
    let _ = std::fs::write(format!("{}/evidence/C17.json", out()), serde_json::to_string_pretty(&evidence).unwrap());
    println!("violation code=C17-feature-off-does-not-build :: {}", errors.first().unwrap_or(&""));
    println!("VIOLATION property=C17 replay={}", path);
    1
}

/// Determinism proof: every run digest must be identical across processes and worker counts.
pub fn selftest(args: &[String]) -> i32 {
    let n: u64 = arg(args, "--runs").and_then(|s| s.parse().ok()).unwrap_or(300);
    let seed: u64 = std::env::var("VERIF_SEED").ok().and_then(|s| s.parse().ok()).unwrap_or(DEFAULT_SEED);
    let props: Vec<String> = arg(args, "--props")
        .map(|s| s.split(',').map(|x| x.to_string()).collect())
        .unwrap_or_else(|| ["C01", "C02", "C04", "C05", "C06", "C07", "C09", "C10", "C11", "C12", "C13", "C14", "C15", "C16", "C17"].iter().map(|s| s.to_string()).collect());
    let exe = std::env::current_exe().unwrap();
    let mut bad = 0;
    for prop in &props {
        let mut digests: Vec<BTreeMap<u64, (u64, usize, u64)>> = Vec::new();
        for w in [1usize, 5, 16] {
            let b = run_batch(&exe, prop, seed, n, w, Duration::from_secs(120), None);
            digests.push(b.briefs.iter().map(|(i, r)| (*i, (r.digest, r.findings, r.oracle_evals))).collect());
        }
        let same = digests[0] == digests[1] && digests[1] == digests[2];
        println!("determinism {}: {} runs x worker counts 1/5/16 -> {}", prop, n, if same { "identical" } else { "DIFFERENT" });
        if !same {
            bad += 1;
            for (i, v) in &digests[0] {
                if digests[1].get(i) != Some(v) || digests[2].get(i) != Some(v) {
                    println!("  first differing run index {}", i);
                    break;
                }
            }
        }
    }
    if bad == 0 {
        0
    } else {
        1
    }
}
